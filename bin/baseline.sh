#!/bin/sh
# MANIFEST.hooks.baseline_off_cmd: rebuild and run the repository's pinned ctest suite (no hooks exist; guard off == plain tree)
set -e
cmake -G Ninja -S /repo -B /repo/_build -DCMAKE_BUILD_TYPE=RelWithDebInfo -DCMAKE_CXX_FLAGS=-Wno-error >/dev/null
cmake --build /repo/_build -j16 >/dev/null 2>&1 || cmake --build /repo/_build -j16 -k 0 >/dev/null 2>&1 || true
ctest --test-dir /repo/_build -j8 --timeout 900 2>&1 | tail -15
