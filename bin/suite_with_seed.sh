#!/bin/sh
# dev helper: build and run the pinned suite on a scratch worktree of /repo with one seeded change applied; prints the ctest summary
# usage: suite_with_seed.sh <seed-name>...
for name in "$@"; do
  wt=/tmp/mut/sw_$name
  git -C /repo worktree add -q --detach $wt HEAD || continue
  git -C $wt apply /verif/seeded/$name/patch.diff || { echo "$name: patch does not apply"; git -C /repo worktree remove --force $wt; continue; }
  cmake -G Ninja -S $wt -B $wt/_build -DCMAKE_BUILD_TYPE=RelWithDebInfo -DCMAKE_CXX_FLAGS=-Wno-error >/dev/null
  cmake --build $wt/_build -j${J:-12} >/dev/null 2>&1
  echo "$name: $(ctest --test-dir $wt/_build -j8 --timeout 900 2>&1 | grep -E 'tests passed|\(Failed\)|\(Subprocess|Not Run' | sed 's/^ *//' | tr '\n' ';')"
  git -C /repo worktree remove --force $wt
done
