#!/usr/bin/env python3
"""dev helper: derive floors.json from the evidence files of the last runs (one tier at a time).
Floors are COUNT floors only (decided witness instances, discharged obligations: 80 % of what the unchanged tree gives; maximal
number of undecided instances: what the unchanged tree gives plus a small slack).  A check whose counts fall below them exits 2
(analysis broken): a generator that silently lost a family, or a rule that matches nothing, must not pass vacuously."""
import json, glob, os, sys
VERIF = os.path.dirname(os.path.dirname(os.path.abspath(__file__)))
p = os.path.join(VERIF, 'floors.json')
fl = json.load(open(p)) if os.path.exists(p) else {}
for f in sorted(glob.glob(os.path.join(VERIF, 'evidence', 'C*.json'))):
    e = json.load(open(f)); c = e['coverage']; prop, tier = e['property_id'], e['tier']
    bs = c.get('by_status', {})
    decided = sum(bs.get(k, 0) for k in ('ok', 'violation', 'uncompilable'))
    und = c.get('undecided_instances', 0)
    fl.setdefault(prop, {})[tier] = {'decided': int(decided * 0.8), 'discharged': int(c['discharged'] * 0.8), 'max_undecided': max(5, sum(bs.values()) // 200, (und + c.get('unsupported_instances', 0)) * 2 + 3)}
json.dump(fl, open(p, 'w'), indent=1, sort_keys=True)
print('floors for', sorted(fl))
