#!/usr/bin/env python3
"""Anchor-coverage accounting (DESIGN.md §3.5 / §11.8): which function definitions of the library contributed at least one
interpreted instruction to some witness of some check.

Inputs: evidence/coverage/<prop>.<tier>.json (written by every check: library source lines behind interpreted instructions)
and the list of function definitions of Fastor/ obtained from the type-checked AST (clang-query, every ISA configuration, so
that all #ifdef arms are seen).  A function counts as reached if some touched line lies between its first line and the first
line of the next function definition of the same file.

This is a measurement of what the proofs cover, not a verdict on any property; it prints the unreached definitions of the
directories that hold kernels (so that a specialised kernel no witness instantiates is visible) and writes
evidence/coverage/summary.json.  usage: bin/coverage.py [--list DIRPREFIX ...]
"""
import json, os, re, subprocess, sys, glob, tempfile
from concurrent.futures import ThreadPoolExecutor

VERIF = os.path.dirname(os.path.dirname(os.path.abspath(__file__)))
sys.path.insert(0, os.path.join(VERIF, 'gen'))
from core import Config, ALL_ISAS, REPO  # noqa

QUERY = '''set bind-root true
set output diag
match functionDecl(isDefinition(), isExpansionInFileMatching("/Fastor/"), unless(isImplicit()), unless(isDefaulted()))
'''


def function_defs():
    tmp = tempfile.mkdtemp(prefix='fastor_verif_cov_')
    src = os.path.join(tmp, 't.cpp'); open(src, 'w').write('#include <Fastor/Fastor.h>\n')
    q = os.path.join(tmp, 'q.cq'); open(q, 'w').write(QUERY)
    defs = {}

    def one(cfg):
        p = subprocess.run(['clang-query-14', '-f', q, src, '--'] + cfg.flags() + ['-I' + REPO, '-Wno-everything'], capture_output=True, text=True)
        out = []
        for m in re.finditer(r'^(/[^:\n]+):(\d+):\d+: note: "root" binds here\n([^\n]*)', p.stdout, re.M):
            f = m.group(1)
            if '/Fastor/' in f:
                out.append(('Fastor/' + f.split('/Fastor/', 1)[1], int(m.group(2)), m.group(3).strip()[:100]))
        return out
    cfgs = [Config(isa) for isa in ALL_ISAS] + [Config('sse2', std='gnu++14'), Config('avx2', macros=('FASTOR_USE_HADD',)), Config('avx2', macros=('FASTOR_DONT_PERFORM_OP_MIN',))]
    with ThreadPoolExecutor(max_workers=8) as ex:
        for lst in ex.map(one, cfgs):
            for f, line, text in lst:
                defs.setdefault(f, {})[line] = text
    import shutil; shutil.rmtree(tmp, ignore_errors=True)
    return defs


def main():
    want = [a for a in sys.argv[1:] if not a.startswith('--')] or ['Fastor/backend/', 'Fastor/simd_vector/', 'Fastor/simd_math/', 'Fastor/tensor_algebra/', 'Fastor/expressions/', 'Fastor/tensor/']
    lines = {}
    files = sorted(glob.glob(os.path.join(VERIF, 'evidence', 'coverage', 'C*.json')))
    for fn in files:
        for f, ls in json.load(open(fn)).items():
            lines.setdefault(f, set()).update(ls)
    defs = function_defs()
    summary, unreached = {}, {}
    for f, d in sorted(defs.items()):
        starts = sorted(d)
        touched = sorted(lines.get(f, ()))
        hit = set()
        import bisect
        for l in touched:
            i = bisect.bisect_right(starts, l) - 1
            if i >= 0:
                hit.add(starts[i])
        # the same function may have two alternative signatures selected by #ifdef a few lines apart: the earlier one has no lines of its own
        for i in range(len(starts) - 2, -1, -1):
            if starts[i] not in hit and starts[i + 1] in hit and starts[i + 1] - starts[i] <= 8:
                hit.add(starts[i])
        summary[f] = {'functions': len(starts), 'reached': len(hit)}
        unreached[f] = [(l, d[l]) for l in starts if l not in hit]
    tot = sum(v['functions'] for v in summary.values()); got = sum(v['reached'] for v in summary.values())
    print('coverage files: %d; function definitions: %d; reached by at least one witness: %d (%.1f%%)' % (len(files), tot, got, 100.0 * got / max(1, tot)))
    bydir = {}
    for f, v in summary.items():
        k = '/'.join(f.split('/')[:2]) + '/'
        a = bydir.setdefault(k, [0, 0]); a[0] += v['functions']; a[1] += v['reached']
    for k, (n, r) in sorted(bydir.items()):
        print('  %-28s %5d / %5d' % (k, r, n))
    os.makedirs(os.path.join(VERIF, 'evidence', 'coverage'), exist_ok=True)
    json.dump({'total': tot, 'reached': got, 'per_file': summary, 'unreached': {f: u for f, u in unreached.items() if u}}, open(os.path.join(VERIF, 'evidence', 'coverage', 'summary.json'), 'w'), indent=0)
    if '--list' in sys.argv:
        for f, u in sorted(unreached.items()):
            if u and any(f.startswith(w) for w in want):
                print('%s: %d unreached' % (f, len(u)))
                for l, t in u[:int(os.environ.get('COV_MAX', '12'))]:
                    print('    %5d  %s' % (l, t))


if __name__ == '__main__':
    main()
