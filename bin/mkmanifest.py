#!/usr/bin/env python3
import json, os, sys
HERE = os.path.dirname(os.path.abspath(__file__)); VERIF = os.path.dirname(HERE)
sys.path.insert(0, os.path.join(VERIF, 'gen'))
import registry
props = [json.loads(l) for l in open(os.path.join(VERIF, 'properties.jsonl'))]
checks, na = [], []
for p in props:
    pid = p['id']; c = registry.CHECKS.get(pid)
    if not c:
        na.append({'property_id': pid, 'reason': getattr(registry, 'NA', {}).get(pid, registry.NOT_BUILT)}); continue
    checks.append({'property_id': pid, 'quick_cmd': 'bin/check %s --tier quick' % pid, 'thorough_cmd': 'bin/check %s --tier thorough' % pid,
                   'evidence_file': 'evidence/%s.json' % pid, 'replay_cmd_template': 'bin/check %s --replay {path}' % pid, 'engine': c.get('engine', 'irflow'),
                   'level_claimed': {'category': c['category'], 'text': c['text'], 'design_ref': c['design_ref']}, 'level_note': c['note'], 'technique': c['technique']})
m = {'version': 1, 'setup_cmd': 'sh setup.sh',
     'hooks': {'guard': 'FASTOR_VERIF', 'enable': 'no hooks: /repo is analysed unmodified (the guard name is reserved, nothing in /repo tests it)', 'baseline_off_cmd': 'sh bin/baseline.sh', 'source_commits': [], 'add_only': True},
     'engines': [{'name': 'irflow', 'path': 'tools/irflow', 'serves_properties': [c['property_id'] for c in checks if c['engine'] == 'irflow'], 'kind_free_text': 'abstract interpreter over clang-emitted LLVM IR (constant propagation for control/indices, hash-consed term + polynomial domain for data, gated merge)'},
                 {'name': 'tmeta', 'path': 'gen/tmeta.py', 'serves_properties': [c['property_id'] for c in checks if 'tmeta' in c['engine']], 'kind_free_text': 'type-level witnesses: static_assert / compiler acceptance matrix / compile-fail witnesses via clang++ -fsyntax-only'},
                 {'name': 'astrules', 'path': 'tools/astrules', 'serves_properties': [c['property_id'] for c in checks if 'astrules' in c['engine']], 'kind_free_text': 'libTooling rules over the type-checked AST'}],
     'checks': checks, 'not_applicable': na,
     'notes': 'Static analysis only: no check links or runs Fastor code. Exit codes: 0 held on everything explored, 1 + VIOLATION line, 2 analysis broken (anchor vanished / unsupported construct / below floor).'}
json.dump(m, open(os.path.join(VERIF, 'MANIFEST.json'), 'w'), indent=1)
print('claimed', [c['property_id'] for c in checks])
