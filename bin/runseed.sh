#!/bin/sh
# dev helper: apply a seeded change to /repo, run the named checks (quick), undo it straight afterwards
# usage: runseed.sh <seed-name> <Cxx> [<Cxx>...]
name=$1; shift
[ -z "$(git -C /repo status --porcelain --untracked-files=no)" ] || { echo "/repo not clean"; exit 3; }
git -C /repo apply /verif/seeded/$name/patch.diff || exit 3
trap 'git -C /repo checkout -- .' EXIT INT TERM
for c in "$@"; do
  VERIF_NO_EVIDENCE=1 /verif/bin/check $c --tier ${TIER:-quick} > /tmp/runseed.$$.log 2>&1; rc=$?
  echo "== seed $name check $c exit $rc"
  grep -E "VIOLATION|violation:|UNDECIDED|BROKEN|KNOWN" /tmp/runseed.$$.log | cut -c1-${CUT:-420} | head -${LINES_MAX:-8}
  tail -1 /tmp/runseed.$$.log | cut -c1-300
done
rm -f /tmp/runseed.$$.log
