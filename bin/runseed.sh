#!/bin/sh
# dev helper: run the named checks (quick unless TIER is set) against a seeded change.  The change is applied in a scratch
# worktree of /repo (outside /repo and /verif, removed afterwards) and the checks are pointed at it with FASTOR_REPO, so /repo
# itself is never modified and other runs are not disturbed.   usage: runseed.sh <seed-name> <Cxx> [<Cxx>...]
name=$1; shift
wt=/tmp/seedrun.$$
git -C /repo worktree add --detach $wt >/dev/null 2>&1 || exit 3
trap 'git -C /repo worktree remove --force $wt >/dev/null 2>&1; rm -f /tmp/runseed.$$.log' EXIT INT TERM
git -C $wt apply ${PATCH:-/verif/seeded/$name/patch.diff} || exit 3
for c in "$@"; do
  FASTOR_REPO=$wt VERIF_NO_EVIDENCE=1 /verif/bin/check $c --tier ${TIER:-quick} > /tmp/runseed.$$.log 2>&1; rc=$?
  echo "== seed $name check $c exit $rc"
  grep -E "VIOLATION|violation:|UNDECIDED|BROKEN|KNOWN" /tmp/runseed.$$.log | cut -c1-${CUT:-420} | head -${LINES_MAX:-8}
  tail -1 /tmp/runseed.$$.log | cut -c1-300
done
