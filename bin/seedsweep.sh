#!/bin/sh
# development helper: run every quick check under several seeds and print one line per run
cd "$(dirname "$0")/.."
[ -x build/irflow ] || sh setup.sh >/dev/null 2>&1
for s in ${SEEDS:-1 2 3}; do
  for p in ${PROPS:-C01 C02 C03 C04 C05 C08 C09 C10 C11 C12 C13 C14 C15 C16 C17 C18 C19 C20}; do
    VERIF_SEED=$s bin/check $p 2>&1 | grep -E "^C[0-9]+ quick|VIOLATION|BROKEN" | cut -c1-260 | sed "s/^/seed=$s /"
  done
done
