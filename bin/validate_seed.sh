#!/bin/sh
# dev helper: validate a sub-agent's seeded change in its scratch worktree /tmp/mut/<id> and store it under /verif/seeded/<name>
# usage: validate_seed.sh <worktree-id> <seed-name> "<demo compile flags>"
id=$1; name=$2; flags=${3:--O2}
wt=/tmp/mut/$id; out=/tmp/mut/${id}_out
set -e
cd $wt
git diff > /tmp/mut/$id.patch
[ -s /tmp/mut/$id.patch ] || { echo "no diff in worktree"; exit 1; }
git diff --stat | tail -3
# suite with the change (rebuild what is stale, then run)
cmake -G Ninja -S $wt -B $wt/_build -DCMAKE_BUILD_TYPE=RelWithDebInfo -DCMAKE_CXX_FLAGS=-Wno-error >/dev/null
cmake --build $wt/_build -j16 2>&1 | tail -1
ctest --test-dir $wt/_build -j16 --timeout 900 2>&1 | grep -E "tests passed|Failed|\(Failed\)|Not Run" | sort | tr '\n' ' '; echo
# demo with the change
g++ -std=c++17 $flags -I$wt $out/demo.cpp -o /tmp/mut/$id.demo_with 2>&1 | tail -3
set +e
/tmp/mut/$id.demo_with > /tmp/mut/$id.with.log 2>&1; echo "demo WITH change: exit $?"; tail -2 /tmp/mut/$id.with.log
git apply -R /tmp/mut/$id.patch
g++ -std=c++17 $flags -I$wt $out/demo.cpp -o /tmp/mut/$id.demo_without 2>&1 | tail -3
/tmp/mut/$id.demo_without > /tmp/mut/$id.without.log 2>&1; echo "demo WITHOUT change: exit $?"
git apply /tmp/mut/$id.patch
mkdir -p /verif/seeded/$name
cp /tmp/mut/$id.patch /verif/seeded/$name/patch.diff
cp $out/demo.cpp /verif/seeded/$name/demo.cpp
[ -f $out/notes.md ] && cp $out/notes.md /verif/seeded/$name/notes.md
rm -f /tmp/mut/$id.demo_with /tmp/mut/$id.demo_without
