#!/usr/bin/env python3
"""dev helper: thorough-tier floors from the summary lines of thorough runs made with VERIF_NO_EVIDENCE (same formula as mkfloors.py).
usage: mkfloors_thorough.py <logfile with lines '<Cxx> thorough: N witness instances, a/b obligations discharged, status {...}, ...exit 0'>"""
import json, os, re, sys, ast
VERIF = os.path.dirname(os.path.dirname(os.path.abspath(__file__)))
p = os.path.join(VERIF, 'floors.json')
fl = json.load(open(p))
for line in open(sys.argv[1]):
    m = re.search(r'(C\d\d) thorough: (\d+) witness instances, (\d+)/(\d+) obligations discharged, status (\{.*?\}), [\d.]+s, exit (\d)', line)
    if not m or m.group(6) != '0':
        continue
    prop, n, ok = m.group(1), int(m.group(2)), int(m.group(3)); bs = ast.literal_eval(m.group(5))
    decided = sum(bs.get(k, 0) for k in ('ok', 'violation', 'uncompilable'))
    und = bs.get('undecided', 0) + bs.get('unsupported', 0)
    fl.setdefault(prop, {})['thorough'] = {'decided': int(decided * 0.8), 'discharged': int(ok * 0.8), 'max_undecided': max(5, n // 200, und * 2 + 3)}
    print(prop, fl[prop]['thorough'])
json.dump(fl, open(p, 'w'), indent=1, sort_keys=True)
