#!/bin/sh
# MANIFEST.setup_cmd: builds the analysis tools from the sources in /verif (offline)
set -e
cd "$(dirname "$0")"
sh tools/irflow/build.sh
