// irflow driver: reads a witness specification (JSON), interprets each witness pipeline
// (reference "pre" stages, the Fastor stage under the standing obligations, reference
// "post"/oracle stages) over shared abstract memory and discharges the obligations.
// Usage: irflow spec.json [--verbose]   -> one JSON line per witness on stdout.
#include "interp.h"
#include "norm.h"
#include "llvm/IR/LLVMContext.h"
#include "llvm/IR/Module.h"
#include "llvm/IR/LegacyPassManager.h"
#include "llvm/IRReader/IRReader.h"
#include "llvm/Support/JSON.h"
#include "llvm/Support/MemoryBuffer.h"
#include "llvm/Support/SourceMgr.h"
#include "llvm/Support/raw_ostream.h"
#include "llvm/Transforms/Utils.h"
#include "llvm/Transforms/Scalar.h"
#include <chrono>
#include <sys/resource.h>

using namespace llvm;
using namespace irf;

struct ETy { int esz; bool fp; bool isbool; };
static bool parseETy(const std::string &s, ETy &e) {
  if (s == "f32") e = {4, true, false}; else if (s == "f64") e = {8, true, false};
  else if (s == "i8" || s == "u8") e = {1, false, false}; else if (s == "i16" || s == "u16") e = {2, false, false};
  else if (s == "i32" || s == "u32") e = {4, false, false}; else if (s == "i64" || s == "u64") e = {8, false, false};
  else if (s == "bool") e = {1, false, true}; else return false;
  return true;
}
struct RegionDecl { std::string name, ety, kind, init, ns, role; int64_t cells = 0, size = -1; int align = -1; bool positive = false; std::vector<int64_t> ints, zeros; std::vector<double> fps; int id = -1; ETy e; };

static std::string jstr(const json::Object &o, const char *k, const std::string &d = "") { if (auto v = o.getString(k)) return v->str(); return d; }
static int64_t jint(const json::Object &o, const char *k, int64_t d = 0) { if (auto v = o.getInteger(k)) return *v; return d; }
static bool jbool(const json::Object &o, const char *k, bool d = false) { if (auto v = o.getBoolean(k)) return *v; return d; }

int main(int argc, char **argv) {
  if (argc < 2) { errs() << "usage: irflow spec.json\n"; return 2; }
  bool verbose = false; for (int i = 2; i < argc; i++) if (std::string(argv[i]) == "--verbose") verbose = true;
  auto buf = MemoryBuffer::getFile(argv[1]);
  if (!buf) { errs() << "cannot read " << argv[1] << "\n"; return 2; }
  auto parsed = json::parse((*buf)->getBuffer());
  if (!parsed) { errs() << "bad JSON in " << argv[1] << ": " << toString(parsed.takeError()) << "\n"; return 2; }
  const json::Object *spec = parsed->getAsObject();
  if (!spec) { errs() << "spec is not an object\n"; return 2; }
  LLVMContext Ctx; std::map<std::string, std::unique_ptr<Module>> mods;
  if (auto *ms = spec->getObject("modules")) for (auto &kv : *ms) {
    SMDiagnostic E; auto M = parseIRFile(kv.second.getAsString()->str(), E, Ctx);
    if (!M) { errs() << "cannot load module " << kv.second.getAsString()->str() << "\n"; return 2; }
    legacy::PassManager PM; PM.add(createLoopSimplifyPass()); PM.run(*M); // single latch per loop: lets the scheduler merge at latches
    mods[kv.first.str()] = std::move(M);
  }
  long capMB = jint(*spec, "mem_mb", 4000);
  { struct rlimit rl; rl.rlim_cur = rl.rlim_max = (rlim_t)capMB << 20; setrlimit(RLIMIT_AS, &rl); }
  const json::Array *wits = spec->getArray("witnesses");
  if (!wits) { errs() << "no witnesses\n"; return 2; }
  for (auto &wv : *wits) {
    const json::Object &w = *wv.getAsObject();
    auto t0 = std::chrono::steady_clock::now();
    g_timedOut = false; g_deadline = t0 + std::chrono::milliseconds(jint(w, "max_ms", jint(*spec, "max_ms", 120000)));
    TT = Terms();
    Interp I; I.maxSteps = jint(w, "max_steps", 400000000L);
    json::Object out; out["id"] = jstr(w, "id");
    if (auto *meta = w.getObject("meta")) out["meta"] = json::Object(*meta);
    std::vector<std::string> setupErrors;
    // ---- regions
    std::vector<RegionDecl> regs; std::map<std::string, int> regIx;
    if (auto *ra = w.getArray("regions")) for (auto &rv : *ra) {
      const json::Object &r = *rv.getAsObject(); RegionDecl d;
      d.name = jstr(r, "name"); d.ety = jstr(r, "ety", "f64"); d.kind = jstr(r, "kind", "raw"); d.init = jstr(r, "init", "sym"); d.ns = jstr(r, "ns", d.name); d.role = jstr(r, "role", "in");
      d.cells = jint(r, "cells", 1); d.size = jint(r, "size", -1); d.align = (int)jint(r, "align", -1); d.positive = jbool(r, "positive");
      if (auto *ia = r.getArray("ints")) for (auto &x : *ia) d.ints.push_back(*x.getAsInteger());
      if (auto *fa = r.getArray("fps")) for (auto &x : *fa) d.fps.push_back(*x.getAsNumber());
      if (auto *za = r.getArray("zeros")) for (auto &x : *za) d.zeros.push_back(*x.getAsInteger());
      if (!parseETy(d.ety, d.e)) setupErrors.push_back("bad element type " + d.ety);
      regIx[d.name] = (int)regs.size(); regs.push_back(d);
    }
    const json::Array *stages = w.getArray("stages");
    // tensor-kind regions take their size and alignment from the parameter attributes of the witness function
    auto findFn = [&](const json::Object &st) -> Function * { auto it = mods.find(jstr(st, "mod", "wit")); if (it == mods.end()) return nullptr; return it->second->getFunction(jstr(st, "fn")); };
    for (auto &d : regs) {
      if (d.kind != "tensor") { if (d.size < 0) d.size = d.cells * d.e.esz; if (d.align < 0) d.align = d.e.esz; continue; }
      bool found = false;
      if (stages) for (auto &sv : *stages) {
        const json::Object &st = *sv.getAsObject(); Function *Fn = findFn(st); if (!Fn || found) continue;
        const json::Array *args = st.getArray("args"); if (!args) continue;
        for (size_t i = 0; i < args->size() && i < Fn->arg_size(); i++) {
          auto s = (*args)[i].getAsString(); if (!s || s->str() != d.name) continue;
          Argument *A = Fn->getArg(i); uint64_t db = A->getDereferenceableBytes();
          if (db) { uint64_t al = A->getParamAlign() ? A->getParamAlign()->value() : 1; d.size = (int64_t)((db + al - 1) / al * al); d.align = (int)al; found = true; break; }
        }
      }
      if (!found) { // the parameter is unused by the witness (clang drops the attribute then): the region is never accessed through it
        bool anyUse = false;
        if (stages) for (auto &sv : *stages) { const json::Object &st = *sv.getAsObject(); Function *Fn = findFn(st); if (!Fn) continue; const json::Array *args = st.getArray("args"); if (!args) continue; for (size_t i = 0; i < args->size() && i < Fn->arg_size(); i++) { auto s2 = (*args)[i].getAsString(); if (s2 && s2->str() == d.name && jstr(st, "mod", "wit") == "wit" && !Fn->getArg(i)->use_empty()) anyUse = true; } }
        if (anyUse && !jbool(*spec, "lenient_attrs", false)) setupErrors.push_back("no dereferenceable attribute for tensor region " + d.name + " (anchor vanished?)");
        else { d.size = d.cells * d.e.esz; d.align = d.e.esz; found = true; }
      }
      if (found && d.size < d.cells * d.e.esz) setupErrors.push_back("tensor region " + d.name + " smaller than its cells");
    }
    if (setupErrors.empty()) for (auto &d : regs) {
      Region G; G.name = d.name; G.size = d.size; G.esz = d.e.esz; G.efp = d.e.fp; G.align = d.align; G.declared = true;
      G.role = d.role == "out" ? Region::OUT : d.role == "inout" ? Region::INOUT : d.role == "scratch" ? Region::LOCAL : Region::IN;
      d.id = I.addRegion(G);
      int nsi = TT.nsid(d.ns, d.e.esz, d.e.fp); TT.ns[nsi].positive = TT.ns[nsi].positive || d.positive; TT.ns[nsi].isbool = d.e.isbool;
      for (int64_t c = 0; c < d.cells; c++) {
        AV v;
        if (d.init == "sym") v = AV::Tm(TT.sym(nsi, c), d.e.esz, d.e.fp);
        else if (d.init == "zero") v = d.e.fp ? cfpAV(0, d.e.esz) : AV::Int(0, d.e.esz);
        else if (d.init == "ints") v = AV::Int(c < (int64_t)d.ints.size() ? d.ints[c] : 0, d.e.esz);
        else if (d.init == "fps") v = cfpAV(c < (int64_t)d.fps.size() ? d.fps[c] : 0, d.e.esz);
        else if (d.init == "rats") { int64_t nn = 2 * c < (int64_t)d.ints.size() ? d.ints[2 * c] : 0, dd = 2 * c + 1 < (int64_t)d.ints.size() ? d.ints[2 * c + 1] : 1; v = dd == 1 ? cfpAV((double)nn, d.e.esz) : AV::Tm(TT.mk(TT.OP_RATC, {}, nn, (int)dd), d.e.esz, true); }
        else if (d.init == "undef") continue;
        else { setupErrors.push_back("bad init " + d.init); break; }
        I.setCell(d.id, c * d.e.esz, v, d.e.esz);
      }
      for (int64_t c : d.zeros) if (c >= 0 && c < d.cells) I.setCell(d.id, c * d.e.esz, d.e.fp ? cfpAV(0, d.e.esz) : AV::Int(0, d.e.esz), d.e.esz);
    }
    // ---- stages
    json::Array stageReports; bool anyMonitor = false; int monitoredStages = 0; bool abortedAsExpected = false; int notApplicable = 0;
    if (setupErrors.empty() && stages) for (auto &sv : *stages) {
      const json::Object &st = *sv.getAsObject(); Function *Fn = findFn(st);
      if (!Fn || Fn->isDeclaration()) { setupErrors.push_back("function " + jstr(st, "fn") + " not found in module " + jstr(st, "mod", "wit")); break; }
      std::vector<VV> args; const json::Array *aa = st.getArray("args"); size_t ai = 0;
      for (auto &A : Fn->args()) {
        VV v; Type *T = A.getType();
        if (!aa || ai >= aa->size()) { setupErrors.push_back("too few arguments for " + jstr(st, "fn")); break; }
        const json::Value &av = (*aa)[ai++];
        if (auto s = av.getAsString()) { auto it = regIx.find(s->str()); if (it == regIx.end()) { setupErrors.push_back("unknown region " + s->str()); break; } v = VV{AV::Ptr(regs[it->second].id, 0)}; }
        else if (auto *o = av.getAsObject()) {
          if (o->get("int")) { int by = T->isPointerTy() ? 8 : (int)((T->getPrimitiveSizeInBits() + 7) / 8); v = VV{AV::Int(jint(*o, "int"), by ? by : 1)}; if (T->isIntegerTy(1)) v = VV{AV::Int(jint(*o, "int") ? -1 : 0, 1)}; }
          else if (o->get("fp")) { v = VV{cfpAV(*o->getNumber("fp"), T->isFloatTy() ? 4 : 8)}; }
          else if (o->get("scalar")) { auto it = regIx.find(jstr(*o, "scalar")); if (it == regIx.end()) { setupErrors.push_back("unknown region in scalar arg"); break; } RegionDecl &d = regs[it->second]; v = VV{I.peek(d.id, jint(*o, "cell", 0) * d.e.esz, d.e.esz, d.e.fp)}; }
          else if (o->get("ptr")) { auto it = regIx.find(jstr(*o, "ptr")); if (it == regIx.end()) { setupErrors.push_back("unknown region in ptr arg"); break; } v = VV{AV::Ptr(regs[it->second].id, jint(*o, "off", 0))}; }
          else { setupErrors.push_back("bad argument object"); break; }
        } else { setupErrors.push_back("bad argument"); break; }
        if (T->isPointerTy() && v[0].k != AV::PTR) { setupErrors.push_back("pointer parameter bound to a non-pointer"); break; }
        args.push_back(v);
      }
      if (!setupErrors.empty()) break;
      bool mon = jbool(st, "monitor", jstr(st, "mod", "wit") == "wit"); I.monitor = mon; if (mon) { anyMonitor = true; monitoredStages++; }
      // roles may be overridden per stage
      if (auto *roles = st.getObject("roles")) for (auto &kv : *roles) { auto it = regIx.find(kv.first.str()); if (it != regIx.end()) { std::string r = kv.second.getAsString()->str(); I.S.R[regs[it->second].id].role = r == "out" ? Region::OUT : r == "inout" ? Region::INOUT : r == "scratch" ? Region::LOCAL : Region::IN; } }
      if (mon) for (auto &d : regs) if (I.S.R[d.id].role == Region::OUT) std::fill(I.S.R[d.id].written.begin(), I.S.R[d.id].written.end(), 0);
      Interp::Result r;
      try { r = I.run(*Fn, args); } catch (std::bad_alloc &) { I.err("memory cap reached during interpretation"); }
      if (I.S.R.empty()) { if (jbool(w, "expect_abnormal", false)) { abortedAsExpected = true; break; } I.err("no path of " + jstr(st, "fn") + " returns normally"); break; }
      json::Object sr; sr["fn"] = jstr(st, "fn"); sr["normal"] = gStr(r.normal);
      if (auto rn = st.getString("ret")) {
        auto it = regIx.find(rn->str());
        if (it == regIx.end()) setupErrors.push_back("unknown ret region");
        else { RegionDecl &d = regs[it->second]; int64_t off = jint(st, "ret_off", 0); bool saved = I.monitor; I.monitor = false; for (auto &v : r.val) { int n = v.bytes ? v.bytes : d.e.esz; AV x = v; if (n == 1 && d.e.esz == 1 && x.k == AV::INT) x = AV::Int(x.i & 1, 1); I.store(AV::Ptr(d.id, off), x, n, 1, -1); off += n; } I.monitor = saved; }
      }
      stageReports.push_back(std::move(sr));
      I.monitor = false;
    }
    // ---- obligations
    Comparer cmp; cmp.N.cap = jint(w, "poly_cap", 3000000);
    long nObl = 0, nOk = 0; json::Array viol, undec; std::string firstSample;
    long violTotal = 0;
    auto addViol = [&](json::Object o) { violTotal++; if (viol.size() < 12) viol.push_back(std::move(o)); else if (viol.size() == 12) viol.push_back(json::Object{{"kind", "more"}}); };
    auto srcStr = [&](int s) { return s >= 0 && s < (int)I.srcs.size() ? I.srcs[s].file + ":" + std::to_string(I.srcs[s].line) + " (" + I.srcs[s].func + ")" : std::string(""); };
    bool broken = !setupErrors.empty() || !I.unsupported.empty();
    if (!broken) {
      // standing obligations of the monitored stage(s)
      if (abortedAsExpected) { std::map<std::string, int> kinds; for (auto &f : I.findings) kinds[f.kind]++; const char *standing[] = {"oob-load", "oob-store", "store-to-input", "misaligned", "alloc"}; for (auto k : standing) { nObl++; if (!kinds.count(k) || std::string(k) == "alloc") nOk++; } for (auto &f : I.findings) if (f.kind != "alloc") addViol(json::Object{{"kind", f.kind}, {"region", f.region}, {"off", f.off}, {"bytes", f.n}, {"detail", f.detail}, {"src", srcStr(f.src)}}); nObl++; nOk++; }
      else if (anyMonitor) {
        std::map<std::string, int> kinds; for (auto &f : I.findings) kinds[f.kind]++;
        const char *standing[] = {"oob-load", "oob-store", "store-to-input", "misaligned", "alloc", "undefined-global"};
        for (auto k : standing) { nObl++; if (!kinds.count(k)) nOk++; }
        for (auto &f : I.findings) addViol(json::Object{{"kind", f.kind}, {"region", f.region}, {"off", f.off}, {"bytes", f.n}, {"align", f.align}, {"detail", f.detail}, {"src", srcStr(f.src)}});
        bool expectAbn = jbool(w, "expect_abnormal", false);
        // coverage: every byte of every cell of an out region is written and defined
        if (!expectAbn) for (auto &d : regs) if (I.S.R[d.id].role == Region::OUT) {
          nObl++; std::vector<int64_t> bad;
          for (int64_t c = 0; c < d.cells; c++) { bool ok = true; for (int b = 0; b < d.e.esz; b++) if (!I.S.R[d.id].written[c * d.e.esz + b]) ok = false; if (ok) { AV v = I.peek(d.id, c * d.e.esz, d.e.esz, d.e.fp); if (v.k == AV::UNDEF || v.k == AV::TOP) ok = false; } if (!ok) bad.push_back(c); }
          if (bad.empty()) nOk++; else { json::Array cells; for (size_t i = 0; i < bad.size() && i < 64; i++) cells.push_back(bad[i]); addViol(json::Object{{"kind", "unwritten-cells"}, {"region", d.name}, {"cells", std::move(cells)}, {"count", (int64_t)bad.size()}}); }
        }
        // the monitored stage must be able to complete normally
        if (!expectAbn) { nObl++; if (!I.abnormalUnconditional) nOk++; else addViol(json::Object{{"kind", "always-abnormal"}, {"detail", I.abnormal.empty() ? "" : I.abnormal[0]}}); }
        else { nObl++; if (I.abnormalUnconditional || I.S.R.empty()) nOk++; else addViol(json::Object{{"kind", "no-error-raised"}, {"detail", "an out-of-range index must raise an error instead of completing"}}); }
      }
      if (!abortedAsExpected) if (auto *obls = w.getArray("obligations")) for (auto &ov : *obls) {
        const json::Object &o = *ov.getAsObject(); std::string kind = jstr(o, "kind"), mode = jstr(o, "mode", "EXACT");
        auto cellTerm = [&](RegionDecl &d, int64_t c) { AV v = I.peek(d.id, c * d.e.esz, d.e.esz, d.e.fp); return termOf(v); };
        if (const char *ed = getenv("IRFLOW_EVALDUMP")) { // debugging aid: numeric value of every cell at one evaluation point
          int pt = atoi(ed);
          for (auto &d : regs) { if (d.cells > 160) continue; fprintf(stderr, "EVAL %s:", d.name.c_str()); for (int64_t c = 0; c < d.cells; c++) { std::unordered_map<int, long double> m; long double v; int t = cellTerm(d, c); if (getenv("IRFLOW_EVALCANON")) { static Canon CE; t = CE.canon(t); } if (d.e.fp ? evalReal(t, pt, m, v) : evalReal(t, pt, m, v)) fprintf(stderr, " %.10Lg", v); else { fprintf(stderr, " ?"); static int shown = 0; if (shown++ < 2) { Canon CC; fprintf(stderr, "\nTERM %s\nCANON %s\n", TT.str(t, 2).substr(0, 3000).c_str(), TT.str(CC.canon(t), 2).substr(0, 3000).c_str()); } } } fprintf(stderr, "\n"); }
        }
        auto report = [&](const CmpResult &r, const std::string &region, int64_t cell, int srcid) {
          nObl++;
          if (r.v == V_OK) { nOk++; return; }
          json::Object j{{"kind", r.v == V_VIOLATION ? "value-mismatch" : "undecided"}, {"region", region}, {"cell", cell}, {"how", r.how}, {"got", r.got.substr(0, getenv("IRFLOW_GOTLEN") ? atol(getenv("IRFLOW_GOTLEN")) : 400)}, {"expected", r.expected.substr(0, 400)}, {"point", r.point.substr(0, 600)}, {"src", srcStr(srcid)}, {"mode", mode}};
          if (r.v == V_VIOLATION) addViol(std::move(j)); else if (undec.size() < 8) undec.push_back(std::move(j)); else if (undec.size() == 8) undec.push_back(json::Object{{"kind", "more"}});
        };
        auto cellSrc = [&](RegionDecl &d, int64_t c) { ByteRef b = I.S.R[d.id].bytes[c * d.e.esz]; return b.cell >= 0 ? I.S.cells[b.cell].src : -1; };
        if (kind == "equal") {
          auto ia = regIx.find(jstr(o, "a")), ib = regIx.find(jstr(o, "b"));
          if (ia == regIx.end() || ib == regIx.end()) { setupErrors.push_back("equal: unknown region"); continue; }
          RegionDecl &da = regs[ia->second], &db = regs[ib->second]; int64_t n = jint(o, "cells", std::min(da.cells, db.cells)), ao = jint(o, "aoff", 0), bo = jint(o, "boff", 0);
          if (jbool(o, "diagnose_permutation", false)) { // is region a a rearrangement of the expected cells?
            std::multiset<std::string> sa, sb; Normaliser NP; NP.cap = cmp.N.cap; NP.C = &cmp.C;
            for (int64_t c = 0; c < n; c++) { sa.insert(polyStr(NP.norm(cellTerm(da, ao + c), da.e.fp), 1u << 30)); sb.insert(polyStr(NP.norm(cellTerm(db, bo + c), db.e.fp), 1u << 30)); }
            if (!NP.capped && !NP.overflow) out["permuted"] = (sa == sb);
          }
          for (int64_t c = 0; c < n; c++) {
            int ta = cellTerm(da, ao + c), tb = cellTerm(db, bo + c);
            CmpResult r = cmp.compare(ta, tb, mode, da.e.fp, da.e.esz);
            if (firstSample.empty() && c == n - 1) firstSample = da.name + "[" + std::to_string(ao + c) + "] = " + TT.str(cmp.C.canon(ta), 3).substr(0, 300);
            report(r, da.name, ao + c, cellSrc(da, ao + c));
          }
        } else if (kind == "zero") {
          auto ia = regIx.find(jstr(o, "region")); if (ia == regIx.end()) { setupErrors.push_back("zero: unknown region"); continue; }
          RegionDecl &da = regs[ia->second]; int64_t n = jint(o, "cells", da.cells);
          for (int64_t c = 0; c < n; c++) report(cmp.isZero(cellTerm(da, c), da.e.fp), da.name, c, cellSrc(da, c));
        } else if (kind == "copy") { // cell k of the region is exactly Sym(ns, map[k]) (negated where neg[k])
          auto ia = regIx.find(jstr(o, "region")); if (ia == regIx.end()) { setupErrors.push_back("copy: unknown region"); continue; }
          RegionDecl &da = regs[ia->second]; const json::Array *mp = o.getArray("map"), *ng = o.getArray("neg"); std::string ns = jstr(o, "ns");
          auto nit = TT.nsix.find(ns); if (!mp || nit == TT.nsix.end()) { setupErrors.push_back("copy: bad map or namespace"); continue; }
          for (size_t c = 0; c < mp->size(); c++) {
            int64_t q = *(*mp)[c].getAsInteger(); if (q < 0) continue;
            int exp = TT.sym(nit->second, q); if (ng && c < ng->size() && *(*ng)[c].getAsInteger()) exp = TT.mk(TT.OP_FNEG, {exp}, 0, da.e.esz);
            int ta = cellTerm(da, (int64_t)c);
            if (firstSample.empty() && c == mp->size() - 1) firstSample = da.name + "[" + std::to_string(c) + "] = " + TT.str(cmp.C.canon(ta), 3).substr(0, 300);
            report(cmp.compare(ta, exp, "EXACT", da.e.fp, da.e.esz), da.name, (int64_t)c, cellSrc(da, (int64_t)c));
          }
        } else if (kind == "const") {
          auto ia = regIx.find(jstr(o, "region")); if (ia == regIx.end()) { setupErrors.push_back("const: unknown region"); continue; }
          RegionDecl &da = regs[ia->second]; const json::Array *cs = o.getArray("cells"); double val = o.getNumber("value") ? *o.getNumber("value") : 0;
          if (cs) for (auto &cv : *cs) { int64_t c = *cv.getAsInteger(); int exp = da.e.fp ? TT.cfp(val, da.e.esz) : TT.cint((int64_t)val, da.e.esz); report(cmp.compare(cellTerm(da, c), exp, jstr(o, "mode", "EXACT"), da.e.fp, da.e.esz), da.name, c, cellSrc(da, c)); }
        } else if (kind == "depends") { // the symbols occurring in the cell's term must include the given set
          auto ia = regIx.find(jstr(o, "region")); if (ia == regIx.end()) { setupErrors.push_back("depends: unknown region"); continue; }
          RegionDecl &da = regs[ia->second]; int64_t c = jint(o, "cell"); std::string ns = jstr(o, "ns"); auto nit = TT.nsix.find(ns); const json::Array *need = o.getArray("cells");
          if (nit == TT.nsix.end() || !need) { setupErrors.push_back("depends: bad namespace"); continue; }
          std::set<int> sy = cmp.symsOf(cmp.C.canon(cellTerm(da, c))); CmpResult r; std::string missing;
          for (auto &nv : *need) { int s = TT.sym(nit->second, *nv.getAsInteger()); if (!sy.count(s)) missing += TT.str(s) + " "; }
          if (!missing.empty()) { r.v = V_VIOLATION; r.how = "syntactic dependence misses required inputs"; r.got = "missing: " + missing; }
          report(r, da.name, c, cellSrc(da, c));
        } else if (kind == "contains") { // the value stored in one cell must be computed from the value stored in another (sub-DAG of the raw term)
          auto ia = regIx.find(jstr(o, "region")), ib = regIx.find(jstr(o, "sub_region", jstr(o, "region")));
          if (ia == regIx.end() || ib == regIx.end()) { setupErrors.push_back("contains: unknown region"); continue; }
          std::string onlyIf = jstr(o, "only_if_func"); bool applicable = onlyIf.empty();
          if (!applicable) for (int id : I.fnTouched) if (I.fnNames[id].find(onlyIf) != std::string::npos) applicable = true;
          if (!applicable) { notApplicable++; continue; }
          RegionDecl &da = regs[ia->second], &db = regs[ib->second]; int64_t c = jint(o, "cell"), sc = jint(o, "sub_cell");
          int t = cellTerm(da, c), sub = cellTerm(db, sc); bool found = false; std::set<int> seen; std::vector<int> st{t};
          while (!st.empty() && !found) { int u = st.back(); st.pop_back(); if (!seen.insert(u).second) continue; if (u == sub) { found = true; break; } const Term &x = TT.t[u]; if (x.op == TT.OP_SYM || x.op == TT.OP_PTR) continue; for (int a : x.a) st.push_back(a); }
          CmpResult r; if (TT.t[sub].op == TT.OP_C || TT.t[sub].op == TT.OP_CF) found = true; // a constant carries no dependence to demand
          if (!found) { r.v = V_VIOLATION; r.how = jstr(o, "why", "the cell is not computed from the required earlier result"); r.got = TT.str(t, 4); r.expected = "a term containing " + TT.str(sub, 3); }
          report(r, da.name, c, cellSrc(da, c));
        } else if (kind == "no_narrowing") { // value flow: no result cell of a double-precision computation may be derived through a
          // conversion to a narrower floating-point type (fptrunc): a necessary condition of every "proportional to eps of the element
          // type" bound, invisible to the exact-arithmetic comparison (over the reals the conversion is the identity)
          auto ia = regIx.find(jstr(o, "region")); if (ia == regIx.end()) { setupErrors.push_back("no_narrowing: unknown region"); continue; }
          RegionDecl &da = regs[ia->second]; int64_t n = jint(o, "cells", da.cells);
          std::set<int> seen; // shared across cells: a sub-DAG already found clean is not walked again
          for (int64_t c = 0; c < n; c++) {
            int t = cellTerm(da, c); int bad = -1; std::vector<int> st{t};
            while (!st.empty() && bad < 0) { int u = st.back(); st.pop_back(); if (!seen.insert(u).second) continue; const Term &x = TT.t[u]; if (x.op == TT.OP_SYM || x.op == TT.OP_PTR) continue;
              if (OPS.name(x.op) == "fptrunc" && TT.t[x.a[0]].op != TT.OP_CF) { bad = u; break; } for (int a : x.a) st.push_back(a); }
            CmpResult r; if (bad >= 0) { r.v = V_VIOLATION; r.how = "the value passes through a conversion to a narrower floating-point type"; r.got = TT.str(bad, 3); r.expected = "no fptrunc on the data path of a double-precision result"; }
            report(r, da.name, c, cellSrc(da, c));
            if (bad >= 0) break; // one report per region is enough
          }
        } else if (kind == "independent") { // the cell's term must not mention the given symbols (claimed only for linear / copy forms)
          auto ia = regIx.find(jstr(o, "region")); if (ia == regIx.end()) { setupErrors.push_back("independent: unknown region"); continue; }
          RegionDecl &da = regs[ia->second]; int64_t c = jint(o, "cell"); std::string ns = jstr(o, "ns"); auto nit = TT.nsix.find(ns); const json::Array *no = o.getArray("cells");
          if (nit == TT.nsix.end() || !no) { setupErrors.push_back("independent: bad namespace"); continue; }
          Poly p = cmp.N.norm(cellTerm(da, c), da.e.fp); std::set<int> sy; for (auto &kv : p) for (auto &ve : kv.first) { auto s2 = cmp.symsOf(ve.first); sy.insert(s2.begin(), s2.end()); }
          CmpResult r; std::string extra; for (auto &nv : *no) { int s = TT.sym(nit->second, *nv.getAsInteger()); if (sy.count(s)) extra += TT.str(s) + " "; }
          if (!extra.empty()) { r.v = V_VIOLATION; r.how = "normal form depends on inputs it must not depend on"; r.got = "extra: " + extra; }
          report(r, da.name, c, cellSrc(da, c));
        } else if (kind == "independent_syntactic") { // the cell's canonical term must not mention the given symbols at all
          auto ia = regIx.find(jstr(o, "region")); if (ia == regIx.end()) { setupErrors.push_back("independent_syntactic: unknown region"); continue; }
          RegionDecl &da = regs[ia->second]; int64_t c = jint(o, "cell"); std::string ns = jstr(o, "ns"); auto nit = TT.nsix.find(ns); const json::Array *no = o.getArray("cells");
          if (nit == TT.nsix.end() || !no) { setupErrors.push_back("independent_syntactic: bad namespace"); continue; }
          std::set<int> sy = cmp.symsOf(cmp.C.canon(cellTerm(da, c))); CmpResult r; std::string extra;
          for (auto &nv : *no) { int s2 = TT.sym(nit->second, *nv.getAsInteger()); if (sy.count(s2)) extra += TT.str(s2) + " "; }
          if (!extra.empty()) { r.v = V_VIOLATION; r.how = "term mentions inputs it must not depend on"; r.got = "extra: " + extra.substr(0, 200); }
          report(r, da.name, c, cellSrc(da, c));
        } else if (kind == "premise_bilinear_once") { // op-tree premise of the forward rounding bound: as many multiplications as monomials
          auto ia = regIx.find(jstr(o, "region")); if (ia == regIx.end()) { setupErrors.push_back("premise: unknown region"); continue; }
          RegionDecl &da = regs[ia->second]; int64_t n = jint(o, "cells", da.cells); int64_t maxMul = jint(o, "max_mul", -1);
          for (int64_t c = 0; c < n; c++) { int t = cellTerm(da, c); std::unordered_map<int, int> m2; int mc = cmp.N.mulCount(cmp.C.canon(t), m2); Poly p = cmp.N.norm(t, da.e.fp); CmpResult r; int64_t lim = maxMul >= 0 ? maxMul : (int64_t)p.size(); if (mc > lim) { r.v = V_VIOLATION; r.how = "more multiplications in the op tree than product terms in the result"; r.got = std::to_string(mc) + " multiplications"; r.expected = "<= " + std::to_string(lim); } report(r, da.name, c, cellSrc(da, c)); }
        } else if (kind == "throws") { nObl++; if (!I.abnormal.empty()) nOk++; else addViol(json::Object{{"kind", "no-abnormal-exit"}, {"detail", "the stage was required to be able to raise an error"}}); }
        else if (kind == "nothrow") { nObl++; if (I.abnormal.empty()) nOk++; else addViol(json::Object{{"kind", "abnormal-exit"}, {"detail", I.abnormal[0]}}); }
        else setupErrors.push_back("unknown obligation kind " + kind);
      }
    }
    broken = !setupErrors.empty() || !I.unsupported.empty();
    std::string status = broken ? "unsupported" : (!viol.empty() ? "violation" : (!undec.empty() ? "undecided" : "ok"));
    out["status"] = status; out["obligations"] = (int64_t)nObl; out["discharged"] = (int64_t)nOk;
    if (!viol.empty()) { out["violations"] = std::move(viol); out["violations_total"] = (int64_t)violTotal; }
    if (!undec.empty()) out["undecided"] = std::move(undec);
    if (broken) { json::Array u; for (auto &s : setupErrors) u.push_back("setup: " + s); for (auto &kv : I.unsupported) u.push_back(kv.first + " x" + std::to_string(kv.second)); out["unsupported"] = std::move(u); }
    out["steps"] = (int64_t)I.steps; out["terms"] = (int64_t)TT.t.size(); out["merges"] = (int64_t)I.merges; out["symbolic_branches"] = (int64_t)I.symbolicBranches; out["masked_ops"] = (int64_t)I.masked; out["ptr_order_by_layout"] = (int64_t)I.layoutAssumed;
    out["how"] = json::Object{{"identical_or_canonical", (int64_t)cmp.nCanon}, {"polynomial", (int64_t)cmp.nPoly}, {"case_split", (int64_t)cmp.nSplit}, {"minmax", (int64_t)cmp.nMinmax}, {"refuted", (int64_t)cmp.nRefuted}, {"undecided", (int64_t)cmp.nUndecided}, {"atoms", (int64_t)cmp.N.atoms}, {"nan_guards_resolved", (int64_t)cmp.N.nanGuards}, {"max_poly", (int64_t)cmp.N.maxsize}};
    { json::Array fa; for (int id : I.fnTouched) fa.push_back(I.fnNames[id]); out["funcs"] = std::move(fa); }
    out["obligations_not_applicable"] = notApplicable;
    { json::Array ia; for (auto &s : I.intrinsicsSeen) ia.push_back(s); out["x86"] = std::move(ia); }
    { json::Array ca; for (auto &s : I.calleesSeen) ca.push_back(s); out["callees"] = std::move(ca); }
    if (!I.abnormal.empty()) { json::Array aa; for (auto &s : I.abnormal) aa.push_back(s); out["abnormal"] = std::move(aa); }
    if (!firstSample.empty()) out["sample"] = firstSample;
    out["ms"] = (int64_t)std::chrono::duration_cast<std::chrono::milliseconds>(std::chrono::steady_clock::now() - t0).count();
    if (verbose) out["stages"] = std::move(stageReports);
    outs() << json::Value(std::move(out)) << "\n"; outs().flush();
  }
  { // coverage accounting: the library source lines that contributed interpreted instructions in this run
    json::Object cov; for (auto &kv : g_linesTouched) { json::Array a; for (int l : kv.second) a.push_back(l); cov[kv.first] = std::move(a); }
    json::Object o; o["_coverage"] = std::move(cov); outs() << json::Value(std::move(o)) << "\n"; outs().flush(); }
  return 0;
}
