#!/bin/sh
# builds irflow from the sources in this directory (offline; LLVM-14 C++ API)
set -e
cd "$(dirname "$0")"
mkdir -p ../../build
CXXFLAGS="$(llvm-config-14 --cxxflags) -fno-rtti -fexceptions -O2 -ffp-contract=off -std=c++17 -w"
for f in interp calls norm main; do
  clang++ $CXXFLAGS -c $f.cc -o ../../build/irflow_$f.o &
done
wait
# link to a temporary name and rename: a check that is running keeps the binary it started with
clang++ ../../build/irflow_interp.o ../../build/irflow_calls.o ../../build/irflow_norm.o ../../build/irflow_main.o -o ../../build/irflow.new /usr/lib/llvm-14/lib/libLLVM-14.so
mv -f ../../build/irflow.new ../../build/irflow
echo built ../../build/irflow
