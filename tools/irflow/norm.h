// irflow: normal forms (EXACT canonicaliser, ALGEBRAIC Laurent-polynomial normaliser,
// MINMAX sets, select case-split) and concrete evaluation of extracted terms for the
// refutation-at-a-point rule. DESIGN.md §3.1 "Normal forms and comparison modes".
#pragma once
#include "terms.h"
#include <unordered_map>

#include <chrono>
namespace irf {
extern std::chrono::steady_clock::time_point g_deadline; extern bool g_timedOut;

struct Q {
  __int128 n = 0, d = 1;
  Q() {}
  Q(long long a) : n(a), d(1) {}
  Q(__int128 a, __int128 b);
  Q operator+(const Q &o) const { return Q(n * o.d + o.n * d, d * o.d); }
  Q operator*(const Q &o) const { return Q(n * o.n, d * o.d); }
  bool operator==(const Q &o) const { return n == o.n && d == o.d; }
  bool operator!=(const Q &o) const { return !(*this == o); }
  bool zero() const { return n == 0; }
};
typedef std::vector<std::pair<int, int>> Mono; // (variable term id, exponent) sorted by variable
typedef std::map<Mono, Q> Poly;
std::string polyStr(const Poly &p, size_t lim = 6);

struct Canon;
struct Normaliser {
  Canon *C = nullptr;
  std::unordered_map<long long, Poly> memo;
  long atoms = 0, nanGuards = 0; size_t maxsize = 0; bool overflow = false; size_t cap = 4000000; bool capped = false;
  Poly norm(int t, bool fp);
  Poly normTrunc(int t, int len);
  Poly atom(int t);
  std::map<std::string, int> polyAtoms;
  std::map<int, Poly> invKey; // inv(...) atom -> the polynomial it inverts
  int lastNumeratorAtomFree = 0; // set by zeroModDenominators when it returns false: 1 = the cleared numerator is a non-zero atom-free polynomial (the terms differ wherever defined)
  bool zeroModDenominators(Poly p); // p == 0 wherever every inverted polynomial is non-zero (denominators cleared atom by atom)
  int polyAtom(const char *kind, const Poly &p, int rep, int bytes);
  int mulCount(int t, std::unordered_map<int, int> &memo2); // number of multiplications in the expression tree
};

// canonical representative for EXACT comparison (bit-preserving rewrites only)
struct Canon {
  std::unordered_map<int, int> memo;
  bool divSelfIsOne = false; // x/x == 1: valid wherever the quotient is defined (finite non-zero x)
  int canon(int t);
};

enum Verdict { V_OK, V_VIOLATION, V_UNDECIDED };
struct CmpResult { Verdict v = V_OK; std::string how, expected, got, point; };

struct Comparer {
  Canon C; Normaliser N;
  Comparer() { N.C = &C; }
  int points = 6;
  long nCanon = 0, nPoly = 0, nSplit = 0, nMinmax = 0, nRefuted = 0, nUndecided = 0;
  // a is the value produced by the code under analysis, b the reference
  CmpResult compare(int a, int b, const std::string &mode, bool fp, int bytes);
  CmpResult isZero(int a, bool fp);
  bool refute(int a, int b, bool fp, int bytes, bool exactBits, std::string &point, std::string &va, std::string &vb, bool &evaluable);
  std::set<int> symsOf(int t);
};

// concrete evaluation of a term at a point (assignment of values to syms)
struct Point { int index; };
bool evalBits(int t, int point, std::unordered_map<int, uint64_t> &memo, uint64_t &out);
bool evalReal(int t, int point, std::unordered_map<int, long double> &memo, long double &out);
uint64_t symBits(int nsi, int64_t cell, int point);
std::string symValueStr(int symTerm, int point);

} // namespace irf
