// irflow: calls — generic LLVM intrinsics, the x86 lane table, libm, allocation monitor,
// descent into functions defined in the module.
#include "interp.h"
#include "llvm/IR/IntrinsicInst.h"
#include "llvm/IR/InlineAsm.h"
#include "llvm/IR/Constants.h"
#include "llvm/IR/Operator.h"
#include <cmath>

using namespace llvm;
namespace irf {

static bool starts(const std::string &s, const char *p) { return s.rfind(p, 0) == 0; }

bool Interp::call(Function &Fn, Frame &F, CallBase &CB, Guard &guard) {
  Function *CF = CB.getCalledFunction();
  if (!CF) if (auto *C = dyn_cast<Function>(CB.getCalledOperand()->stripPointerCasts())) CF = C;
  Type *RT = CB.getType(); int rb = RT->isVoidTy() ? 0 : sbytes(RT);
  bool rfp = !RT->isVoidTy() && RT->getScalarType()->isFloatingPointTy();
  unsigned rl = RT->isVoidTy() ? 0 : leafCount(RT);
  auto setTop = [&] { if (!RT->isVoidTy()) F.env[&CB] = VV(rl, AV::Top(rb)); };
  int src = srcOf(CB);
  if (!CF) {
    if (auto *IA = dyn_cast<InlineAsm>(CB.getCalledOperand())) {
      std::string s = IA->getAsmString();
      bool blank = true; for (char c : s) if (!isspace((unsigned char)c)) { blank = false; break; }
      if (blank || s[0] == '#') { if (!RT->isVoidTy()) F.env[&CB] = get(F, CB.getArgOperand(0)); return true; }
    }
    err("indirect call or non-empty inline asm"); setTop(); return true;
  }
  std::string n = CF->getName().str();
  auto arg = [&](unsigned i) { return get(F, CB.getArgOperand(i)); };
  auto lanewise = [&](const std::string &op, unsigned na, bool fp, bool comm = false) {
    std::vector<VV> as; for (unsigned i = 0; i < na; i++) as.push_back(arg(i));
    VV r; size_t L = 0; for (auto &a : as) L = std::max(L, a.size());
    for (size_t l = 0; l < L; l++) {
      std::vector<int> ids; bool top = false;
      for (auto &a : as) { const AV &v = a.size() == 1 ? a[0] : a[l]; if (v.k == AV::TOP) top = true; ids.push_back(termOf(v)); }
      if (comm && ids.size() >= 2 && ids[1] < ids[0]) std::swap(ids[0], ids[1]);
      r.push_back(top ? AV::Top(rb) : AV::Tm(TT.mk(op, ids, 0, rb), rb, fp));
    }
    F.env[&CB] = r;
  };
  if (CF->isIntrinsic()) {
    if (auto *FPO = dyn_cast<FPMathOperator>(&CB)) if (FPO->getFastMathFlags().any()) err("fast-math flag on intrinsic call");
    if (starts(n, "llvm.experimental.noalias") || starts(n, "llvm.lifetime") || starts(n, "llvm.assume") || starts(n, "llvm.dbg") || starts(n, "llvm.prefetch") || starts(n, "llvm.invariant") || starts(n, "llvm.donothing") || starts(n, "llvm.stacksave") || starts(n, "llvm.stackrestore") || starts(n, "llvm.var.annotation")) {
      if (!RT->isVoidTy()) F.env[&CB] = VV{AV::Top(8)};
      return true;
    }
    if (starts(n, "llvm.expect.")) { F.env[&CB] = arg(0); return true; }
    if (starts(n, "llvm.trap") || starts(n, "llvm.debugtrap")) { abnormalExit(guard, "trap", CB); return false; }
    if (starts(n, "llvm.is.constant")) { VV a = arg(0); F.env[&CB] = VV{AV::Int(a[0].k == AV::INT ? -1 : 0, 1)}; return true; }
    if (starts(n, "llvm.objectsize")) { F.env[&CB] = VV{AV::Int(-1, rb)}; return true; }
    if (starts(n, "llvm.fma.")) { lanewise("fma", 3, true, true); return true; }
    if (starts(n, "llvm.fmuladd.")) { lanewise("fmuladd", 3, true, true); return true; }
    if (starts(n, "llvm.sqrt.")) { lanewise("sqrt", 1, true); return true; }
    if (starts(n, "llvm.fabs.")) {
      VV a = arg(0); VV r;
      for (auto &v : a) { if (v.k == AV::T && TT.t[v.t].op == TT.OP_CF) r.push_back(cfpAV(std::fabs(TT.cfval(v.t)), v.bytes)); else if (v.k == AV::TOP) r.push_back(v); else r.push_back(AV::Tm(TT.mk(TT.OP_FABS, {termOf(v)}, 0, rb), rb, true)); }
      F.env[&CB] = r; return true;
    }
    if (starts(n, "llvm.abs.")) {
      VV a = arg(0); VV r;
      for (auto &v : a) { if (v.k == AV::INT) r.push_back(AV::Int(v.i < 0 ? -v.i : v.i, rb)); else if (v.k == AV::TOP) r.push_back(v); else r.push_back(AV::Tm(TT.mk("abs", {termOf(v)}, 0, rb), rb)); }
      F.env[&CB] = r; return true;
    }
    if (starts(n, "llvm.umax.") || starts(n, "llvm.umin.") || starts(n, "llvm.smax.") || starts(n, "llvm.smin.")) {
      VV a = arg(0), b = arg(1); VV r; std::string o = n.substr(5, 4);
      for (unsigned l = 0; l < a.size(); l++) {
        if (a[l].k == AV::INT && b[l].k == AV::INT) {
          int64_t x = a[l].i, y = b[l].i; bool uns = o[0] == 'u'; int bits = rb * 8;
          uint64_t m = bits >= 64 ? ~0ULL : ((1ULL << bits) - 1), ux = (uint64_t)x & m, uy = (uint64_t)y & m;
          bool takeA = o.substr(1) == "max" ? (uns ? ux >= uy : x >= y) : (uns ? ux <= uy : x <= y);
          r.push_back(takeA ? a[l] : b[l]);
        } else if (a[l].k == AV::TOP || b[l].k == AV::TOP) r.push_back(AV::Top(rb));
        else { int x = termOf(a[l]), y = termOf(b[l]); if (y < x) std::swap(x, y); r.push_back(AV::Tm(TT.mk(o, {x, y}, 0, rb), rb)); }
      }
      F.env[&CB] = r; return true;
    }
    if (starts(n, "llvm.minnum.") || starts(n, "llvm.maxnum.")) { lanewise(n.substr(5, 6), 2, true, true); return true; }
    if (starts(n, "llvm.minimum.") || starts(n, "llvm.maximum.")) { lanewise(n.substr(5, 7), 2, true, true); return true; }
    if (starts(n, "llvm.ceil.") || starts(n, "llvm.floor.") || starts(n, "llvm.trunc.") || starts(n, "llvm.round.") || starts(n, "llvm.rint.") || starts(n, "llvm.nearbyint.") || starts(n, "llvm.roundeven.")) { std::string o = n.substr(5); o = o.substr(0, o.find('.')); lanewise("libm." + o, 1, true); return true; }
    if (starts(n, "llvm.sin.") || starts(n, "llvm.cos.") || starts(n, "llvm.exp.") || starts(n, "llvm.exp2.") || starts(n, "llvm.log.") || starts(n, "llvm.log2.") || starts(n, "llvm.log10.") || starts(n, "llvm.pow.")) { std::string o = n.substr(5); o = o.substr(0, o.find('.')); lanewise("libm." + o, CB.arg_size(), true); return true; }
    if (starts(n, "llvm.copysign.")) { lanewise("copysign", 2, true); return true; }
    if (starts(n, "llvm.ctpop.") || starts(n, "llvm.cttz.") || starts(n, "llvm.ctlz.")) {
      VV a = arg(0); VV r; std::string o = n.substr(5, 4);
      for (auto &v : a) {
        if (v.k == AV::INT) { int bits = rb * 8; uint64_t x = (uint64_t)v.i & (bits >= 64 ? ~0ULL : ((1ULL << bits) - 1)); int64_t c = 0; if (o == "ctpo") c = __builtin_popcountll(x); else if (o == "cttz") c = x ? __builtin_ctzll(x) : bits; else c = x ? __builtin_clzll(x) - (64 - bits) : bits; r.push_back(AV::Int(c, rb)); }
        else if (v.k == AV::TOP) r.push_back(v); else r.push_back(AV::Tm(TT.mk(o, {termOf(v)}, 0, rb), rb));
      }
      F.env[&CB] = r; return true;
    }
    if (starts(n, "llvm.vector.reduce.")) {
      VV a = arg(CB.arg_size() - 1); std::string o = n.substr(19); o = o.substr(0, o.find('.'));
      std::vector<int> ids; bool top = false;
      if (CB.arg_size() == 2) { AV s = arg(0)[0]; if (s.k == AV::TOP) top = true; ids.push_back(termOf(s)); }
      for (auto &v : a) { if (v.k == AV::TOP) top = true; ids.push_back(termOf(v)); }
      F.env[&CB] = VV{top ? AV::Top(rb) : AV::Tm(TT.mk("reduce." + o, ids, CB.arg_size() == 2 ? 1 : 0, rb), rb, rfp)};
      return true;
    }
    if (starts(n, "llvm.masked.load.")) {
      AV p = arg(0)[0]; AV al = arg(1)[0]; VV m = arg(2), pt = arg(3); VV r; int a0 = al.k == AV::INT ? (int)al.i : 1;
      if (p.k != AV::PTR) { err("masked load through non-pointer"); setTop(); return true; }
      masked++;
      for (unsigned i = 0; i < m.size(); i++) {
        if (m[i].k == AV::INT) r.push_back((m[i].i & 1) ? load(AV::Ptr(p.region, p.off + (int64_t)i * rb), rb, rfp, i == 0 ? a0 : 1, src) : pt[i]);
        else { AV ld = load(AV::Ptr(p.region, p.off + (int64_t)i * rb), rb, rfp, 1, src); r.push_back(select(m[i], ld, pt[i])); }
      }
      F.env[&CB] = r; return true;
    }
    if (starts(n, "llvm.masked.store.")) {
      VV v = arg(0); AV p = arg(1)[0]; AV al = arg(2)[0]; VV m = arg(3); int sz = sbytes(CB.getArgOperand(0)->getType()); int a0 = al.k == AV::INT ? (int)al.i : 1;
      if (p.k != AV::PTR) { err("masked store through non-pointer"); return true; }
      masked++;
      for (unsigned i = 0; i < m.size(); i++) {
        AV q = AV::Ptr(p.region, p.off + (int64_t)i * sz);
        if (m[i].k == AV::INT) { if (m[i].i & 1) store(q, v[i], sz, i == 0 ? a0 : 1, src); }
        else { AV old = load(q, sz, false, 1, src); store(q, select(m[i], v[i], old), sz, 1, src); }
      }
      return true;
    }
    if (starts(n, "llvm.masked.gather.")) {
      VV ps = arg(0), m = arg(2), pt = arg(3); VV r; masked++;
      for (unsigned i = 0; i < ps.size(); i++) {
        if (m[i].k == AV::INT && !(m[i].i & 1)) { r.push_back(pt[i]); continue; }
        AV ld = ps[i].k == AV::PTR ? load(ps[i], rb, rfp, 1, src) : (err("gather through data-dependent address"), AV::Top(rb));
        r.push_back(m[i].k == AV::INT ? ld : select(m[i], ld, pt[i]));
      }
      F.env[&CB] = r; return true;
    }
    if (starts(n, "llvm.masked.scatter.")) {
      VV v = arg(0), ps = arg(1), m = arg(3); int sz = sbytes(CB.getArgOperand(0)->getType()); masked++;
      for (unsigned i = 0; i < ps.size(); i++) {
        if (m[i].k == AV::INT && !(m[i].i & 1)) continue;
        if (ps[i].k != AV::PTR) { err("scatter through data-dependent address"); continue; }
        if (m[i].k == AV::INT) store(ps[i], v[i], sz, 1, src);
        else { AV old = load(ps[i], sz, false, 1, src); store(ps[i], select(m[i], v[i], old), sz, 1, src); }
      }
      return true;
    }
    if (starts(n, "llvm.memcpy") || starts(n, "llvm.memmove")) {
      AV d = arg(0)[0], s = arg(1)[0], l = arg(2)[0];
      if (l.k == AV::INT && (isPtrSel(d) || isPtrSel(s)) && (d.k == AV::PTR || isPtrSel(d)) && (s.k == AV::PTR || isPtrSel(s))) {
        // a row copied from / to a position chosen by data-dependent comparisons (pivoting): element-sized chunks through the pointer selects
        int g = (l.i % 8 == 0) ? 8 : (l.i % 4 == 0) ? 4 : 1;
        auto firstPtr = [&](AV q) { while (q.k == AV::T) q = avOfTerm(TT.t[q.t].a[1]); return q; };
        AV fs = firstPtr(s); bool efp = fs.k == AV::PTR && fs.region >= 0 && fs.region < (int)S.R.size() && S.R[fs.region].efp && S.R[fs.region].esz == g;
        std::vector<AV> vals; for (int64_t o = 0; o < l.i; o += g) vals.push_back(load(ptrAdd(s, o), g, efp, 1, src));
        for (int64_t o = 0; o < l.i; o += g) store(ptrAdd(d, o), vals[o / g], g, 1, src);
        return true;
      }
      if (d.k != AV::PTR || s.k != AV::PTR || l.k != AV::INT) { err("memcpy with data-dependent arguments"); return true; }
      if (l.i == 0) return true;
      int da = CB.getParamAlign(0) ? (int)CB.getParamAlign(0)->value() : 1, sa = CB.getParamAlign(1) ? (int)CB.getParamAlign(1)->value() : 1;
      if (s.region < 0 || s.region >= (int)S.R.size() || d.region < 0) { err("memcpy via null"); return true; }
      Region &G = S.R[s.region];
      if (s.off < 0 || s.off + l.i > G.size) { if (monitor) find("oob-load", s.region, s.off, (int)l.i, sa, src, "memcpy source; region size " + std::to_string(G.size)); else err("out-of-region memcpy source in an unmonitored stage"); return true; }
      std::vector<std::pair<int, AV>> vs; int64_t i = 0;
      while (i < l.i) { // copy in maximal same-cell chunks so that cell structure survives
        ByteRef b = G.bytes[s.off + i]; int len = 1;
        if (b.cell >= 0) while (i + len < l.i) { ByteRef c = G.bytes[s.off + i + len]; if (c.cell != b.cell || c.idx != b.idx + len) break; len++; }
        else while (i + len < l.i && G.bytes[s.off + i + len].cell < 0) len++;
        vs.push_back({len, load(AV::Ptr(s.region, s.off + i), len, false, i == 0 ? sa : 1, src)}); i += len;
      }
      i = 0;
      for (auto &kv : vs) {
        if (kv.second.k == AV::UNDEF) { // copying uninitialised bytes keeps them uninitialised
          Region &D = S.R[d.region];
          if (d.off + i < 0 || d.off + i + kv.first > D.size) { if (monitor) find("oob-store", d.region, d.off + i, kv.first, da, src, "memcpy destination"); else err("out-of-region memcpy destination in an unmonitored stage"); }
          else for (int b = 0; b < kv.first; b++) { D.bytes[d.off + i + b] = ByteRef(); D.written[d.off + i + b] = 1; }
        } else store(AV::Ptr(d.region, d.off + i), kv.second, kv.first, i == 0 ? da : 1, src);
        i += kv.first;
      }
      return true;
    }
    if (starts(n, "llvm.memset")) {
      AV d = arg(0)[0], v = arg(1)[0], l = arg(2)[0];
      if (d.k != AV::PTR || l.k != AV::INT || v.k != AV::INT) { err("memset with data-dependent arguments"); return true; }
      int da = CB.getParamAlign(0) ? (int)CB.getParamAlign(0)->value() : 1;
      int esz = d.region >= 0 && S.R[d.region].declared ? S.R[d.region].esz : 1; bool efp = d.region >= 0 && S.R[d.region].declared && S.R[d.region].efp;
      if (esz > 1 && (d.off % esz || l.i % esz)) esz = 1;
      for (int64_t o = 0; o < l.i; o += esz) {
        uint64_t x = 0; for (int b = 0; b < esz; b++) x |= ((uint64_t)(uint8_t)v.i) << (8 * b);
        AV val = AV::Int(esz < 8 ? (int64_t)(x << (64 - 8 * esz)) >> (64 - 8 * esz) : (int64_t)x, esz);
        store(AV::Ptr(d.region, d.off + o), efp ? fixfp(val, true) : val, esz, o == 0 ? da : 1, src);
      }
      return true;
    }
    if (starts(n, "llvm.x86.")) { intrinsicsSeen.insert(n); if (x86call(n, F, CB)) return true; err("x86 intrinsic not in the lane table: " + n); setTop(); return true; }
    if (starts(n, "llvm.fshl.") || starts(n, "llvm.fshr.")) {
      VV a = arg(0), b = arg(1), c = arg(2); VV r; int bits = rb * 8; bool left = starts(n, "llvm.fshl.");
      for (unsigned l = 0; l < a.size(); l++) {
        if (c[l].k == AV::INT && a[l].k == AV::INT && b[l].k == AV::INT && bits <= 64) { uint64_t m = bits >= 64 ? ~0ULL : ((1ULL << bits) - 1); uint64_t x = (uint64_t)a[l].i & m, y = (uint64_t)b[l].i & m; unsigned s = (unsigned)((uint64_t)c[l].i % bits); uint64_t v = left ? (s ? ((x << s) | (y >> (bits - s))) : x) : (s ? ((x << (bits - s)) | (y >> s)) : y); v &= m; r.push_back(AV::Int(bits < 64 ? (int64_t)(v << (64 - bits)) >> (64 - bits) : (int64_t)v, rb)); }
        else if (c[l].k == AV::INT && c[l].i % 8 == 0 && bits % 8 == 0) { int s = (int)((uint64_t)c[l].i % bits) / 8; if (!left) s = (rb - s) % rb; /* result bytes: high part of a<<s | b>>(bits-s) */ std::vector<std::pair<AV, std::pair<int, int>>> ps; if (s == 0) { r.push_back(left ? a[l] : b[l]); continue; } ps.push_back({b[l], {rb - s, s}}); ps.push_back({a[l], {0, rb - s}}); r.push_back(assemble(ps, rb, false)); }
        else { r.push_back(AV::Tm(TT.mk(left ? "fshl" : "fshr", {termOf(a[l]), termOf(b[l]), termOf(c[l])}, 0, rb), rb)); }
      }
      F.env[&CB] = r; return true;
    }
    if (starts(n, "llvm.bswap.") || starts(n, "llvm.bitreverse.")) {
      VV a = arg(0); bool allInt = true; for (auto &v : a) if (v.k != AV::INT) allInt = false;
      if (allInt) { int bits = (int)RT->getScalarSizeInBits(); VV r; for (auto &v : a) { uint64_t x = (uint64_t)v.i & (bits >= 64 ? ~0ULL : ((1ULL << bits) - 1)), y = 0; if (starts(n, "llvm.bitreverse.")) { for (int i = 0; i < bits; i++) if ((x >> i) & 1) y |= 1ULL << (bits - 1 - i); } else { for (int i = 0; i < bits / 8; i++) y |= ((x >> (8 * i)) & 0xFF) << (bits - 8 - 8 * i); } r.push_back(AV::Int(bits < 64 ? (int64_t)(y << (64 - bits)) >> (64 - bits) : (int64_t)y, rb ? rb : 1)); } F.env[&CB] = r; return true; }
      lanewise(n.substr(5, n.find('.', 5) - 5), 1, false); return true;
    }
    if (starts(n, "llvm.sadd.sat.") || starts(n, "llvm.uadd.sat.") || starts(n, "llvm.ssub.sat.") || starts(n, "llvm.usub.sat.")) { lanewise(n.substr(5, 8), 2, false); return true; }
    if (starts(n, "llvm.fptosi.sat.") || starts(n, "llvm.fptoui.sat.")) { lanewise(n.substr(5, 10), 1, false); return true; }
    err("llvm intrinsic not modelled: " + n); setTop(); return true;
  }
  // ---- allocation monitor
  static const char *allocs[] = {"_Znwm", "_Znam", "_ZnwmSt11align_val_t", "_ZnamSt11align_val_t", "_ZnwmRKSt9nothrow_t", "_ZnamRKSt9nothrow_t", "malloc", "calloc", "realloc", "posix_memalign", "aligned_alloc", "memalign", "valloc", "_mm_malloc", nullptr};
  for (int i = 0; allocs[i]; i++) if (n == allocs[i]) {
    // an allocation made by the witness harness itself (e.g. the std::vector it hands to a constructor) is not the library's;
    // one made under a frame of the library — inlined or called — is
    if (monitor && (src >= 0 || fastorCallDepth > 0)) find("alloc", -1, 0, 0, 0, src, n);
    AV sz = arg(n == "aligned_alloc" || n == "memalign" ? 1 : 0)[0];
    if (n == "calloc") { AV b = arg(1)[0]; if (sz.k == AV::INT && b.k == AV::INT) sz = AV::Int(sz.i * b.i, 8); }
    if (n == "posix_memalign" || n == "realloc" || sz.k != AV::INT) { err("allocation with data-dependent size or unsupported form: " + n); setTop(); return true; }
    Region G; G.name = "heap." + std::to_string(S.R.size()); G.size = sz.i; G.esz = 1; G.role = Region::LOCAL; G.align = 16;
    int r = addRegion(G);
    if (n == "calloc") for (int64_t o = 0; o < sz.i; o++) setCell(r, o, AV::Int(0, 1), 1);
    F.env[&CB] = VV{AV::Ptr(r, 0)}; return true;
  }
  if (n == "_ZdlPv" || n == "_ZdaPv" || n == "_ZdlPvm" || n == "_ZdaPvm" || n == "free" || n == "_ZdlPvSt11align_val_t" || n == "_ZdlPvmSt11align_val_t") return true;
  // ---- abnormal termination
  if (n == "__cxa_throw" || n == "abort" || n == "exit" || n == "_exit" || n == "__assert_fail" || n == "_ZSt9terminatev" || n == "__cxa_rethrow" || n == "__cxa_bad_cast" || starts(n, "_ZSt20__throw_") || starts(n, "_ZSt19__throw_") || starts(n, "_ZSt21__throw_") || starts(n, "_ZSt24__throw_") || starts(n, "_ZSt17__throw_") || starts(n, "_ZSt16__throw_") || starts(n, "_ZSt25__throw_") || n == "__stack_chk_fail" || n == "__clang_call_terminate") { abnormalExit(guard, n, CB); return false; }
  if (n == "__cxa_allocate_exception") { Region G; G.name = "exc." + std::to_string(S.R.size()); G.size = 64; G.role = Region::LOCAL; G.align = 16; F.env[&CB] = VV{AV::Ptr(addRegion(G), 0)}; return true; }
  if (n == "__cxa_free_exception" || n.find("runtime_errorC") != std::string::npos || n.find("logic_errorC") != std::string::npos || n.find("out_of_rangeC") != std::string::npos || n.find("invalid_argumentC") != std::string::npos) { setTop(); return true; }
  if (n == "__cxa_guard_acquire") { F.env[&CB] = VV{AV::Int(1, 4)}; return true; }
  if (n == "__cxa_guard_release" || n == "__cxa_guard_abort" || n == "__cxa_atexit") { if (!RT->isVoidTy()) F.env[&CB] = VV{AV::Int(0, 4)}; return true; }
  if (n == "memcpy" || n == "memmove" || n == "memset") { err("libc " + n + " call (expected the intrinsic)"); setTop(); return true; }
  // ---- libm
  {
    static const std::set<std::string> libm = {"sin", "cos", "tan", "exp", "log", "sqrt", "asin", "acos", "atan", "sinh", "cosh", "tanh", "asinh", "acosh", "atanh", "fabs", "pow", "exp2", "log2", "log10", "cbrt", "expm1", "log1p", "erf", "erfc", "tgamma", "lgamma", "ceil", "floor", "round", "trunc", "rint", "nearbyint", "atan2", "hypot", "fmod", "fmin", "fmax", "copysign", "fdim", "remainder", "fma", "ldexp", "scalbn"};
    std::string base = n; bool isf = false;
    if (!base.empty() && base.back() == 'f' && libm.count(base.substr(0, base.size() - 1))) { base.pop_back(); isf = true; }
    if (libm.count(base) && (rfp || RT->isVoidTy()) && !CB.getType()->isVoidTy()) {
      (void)isf;
      if (base == "sqrt") { lanewise("sqrt", 1, true); return true; }
      if (base == "fabs") { lanewise("fabs", 1, true); return true; }
      if (base == "fma") { lanewise("fma", 3, true, true); return true; }
      lanewise("libm." + base, CB.arg_size(), true); return true;
    }
    if (n == "abs" || n == "labs" || n == "llabs") { lanewise("abs", 1, false); return true; }
    if (n == "__mulsc3" || n == "__muldc3" || n == "__divsc3" || n == "__divdc3" || n == "cabs" || n == "cabsf" || n == "carg" || n == "cargf" || starts(n, "cexp") || starts(n, "csqrt") || starts(n, "clog") || starts(n, "cpow") || starts(n, "csin") || starts(n, "ccos") || starts(n, "ctan")) {
      // complex helper: one opaque function symbol per returned component
      std::vector<int> ids; bool top = false;
      for (unsigned i = 0; i < CB.arg_size(); i++) for (auto &v : arg(i)) { if (v.k == AV::TOP) top = true; ids.push_back(termOf(v)); }
      VV out; int eb = CB.arg_size() ? sbytes(CB.getArgOperand(0)->getType()) : rb; if (rl == 1 && !RT->isVectorTy()) eb = rb;
      for (unsigned j = 0; j < std::max(1u, rl); j++) out.push_back(top ? AV::Top(eb) : AV::Tm(TT.mk("libm." + n + (rl > 1 ? (j ? ".im" : ".re") : ""), ids, 0, eb), eb, true));
      if (!RT->isVoidTy()) F.env[&CB] = out;
      return true;
    }
  }
  // ---- stream output on assertion / warning paths: no effect on tensor memory
  if (n.find("basic_ostream") != std::string::npos || n.find("ios_base") != std::string::npos || n == "puts" || n == "printf" || n == "fprintf" || n == "fputs" || n == "fwrite" || n == "putchar" || n == "strlen" || n.find("_ZSt4endl") != std::string::npos || n.find("_ZNSo") == 0 || n.find("_ZStls") == 0 || n.find("__ostream_insert") != std::string::npos || n.find("_ZNKSt5ctype") == 0 || n.find("_ZSt16__throw_bad_cast") == 0) { setTop(); return true; }
  // ---- functions defined in the module: descend
  if (!CF->isDeclaration()) {
    if (monitor) { for (auto &A : CF->args()) (void)A; if (auto *SP = CF->getSubprogram()) { std::string f = SP->getFilename().str(); if (f.find("Fastor/") != std::string::npos) calleesSeen.insert(SP->getName().str()); } }
    std::vector<VV> as; for (unsigned i = 0; i < CB.arg_size(); i++) as.push_back(arg(i));
    // byval arguments: the callee receives a private copy
    for (unsigned i = 0; i < CB.arg_size(); i++) if (CB.isByValArgument(i) && as[i][0].k == AV::PTR) {
      Type *BT = CB.getParamByValType(i); int64_t sz = DL->getTypeAllocSize(BT);
      Region G; G.name = "%byval." + std::to_string(S.R.size()); G.size = sz; G.role = Region::LOCAL; G.align = CB.getParamAlign(i) ? (int)CB.getParamAlign(i)->value() : 8; int r = addRegion(G);
      AV sp = as[i][0]; Region &SR = S.R[sp.region];
      for (int64_t o = 0; o < sz && sp.off + o < SR.size; o++) { ByteRef b = SR.bytes[sp.off + o]; S.R[r].bytes[o] = b; }
      as[i] = VV{AV::Ptr(r, 0)};
    }
    bool fromFastor = src >= 0; if (fromFastor) fastorCallDepth++;
    State backup; Result r = run(*CF, as);
    if (fromFastor) fastorCallDepth--;
    if (r.normal.isFalse()) { abnormalExit(guard, "callee " + n.substr(0, 60) + " never returns normally", CB); return false; }
    if (!r.normal.isTrue()) guard = gAnd(guard, r.normal);
    if (!RT->isVoidTy()) { if (r.val.empty()) setTop(); else F.env[&CB] = r.val; }
    return true;
  }
  err("call to undefined function " + n.substr(0, 80)); setTop(); return true;
}

// ---------------------------------------------------------------- x86 lane table
// Each entry states, per result lane, which operand lanes are read and the opcode applied
// (Intel's documented lane semantics — part of the trusted base).
bool Interp::x86call(const std::string &n, Frame &F, CallBase &CB) {
  Type *RT = CB.getType(); int rb = RT->isVoidTy() ? 0 : sbytes(RT); bool rfp = !RT->isVoidTy() && RT->getScalarType()->isFloatingPointTy();
  int src = srcOf(CB);
  auto arg = [&](unsigned i) { return get(F, CB.getArgOperand(i)); };
  auto mk2 = [&](const char *op, const AV &a, const AV &b, bool fp, bool comm = false) { if (a.k == AV::TOP || b.k == AV::TOP) return AV::Top(rb); int x = termOf(a), y = termOf(b); if (comm && y < x) std::swap(x, y); return AV::Tm(TT.mk(op, {x, y}, 0, rb), rb, fp); };
  auto mk1 = [&](const char *op, const AV &a, bool fp) { if (a.k == AV::TOP) return AV::Top(rb); return AV::Tm(TT.mk(op, {termOf(a)}, 0, rb), rb, fp); };
  auto has = [&](const char *s) { return n.find(s) != std::string::npos; };
  // packed min / max (x86 semantics: returns the second operand if either is NaN or both are zero)
  if ((has(".max.p") || has(".min.p")) && !has("mask")) { VV a = arg(0), b = arg(1), r; for (size_t l = 0; l < a.size(); l++) r.push_back(mk2(has(".max.") ? "x86max" : "x86min", a[l], b[l], true)); F.env[&CB] = r; return true; }
  if (has("avx512.max.p") || has("avx512.min.p")) { VV a = arg(0), b = arg(1), r; for (size_t l = 0; l < a.size(); l++) r.push_back(mk2(has(".max.") ? "x86max" : "x86min", a[l], b[l], true)); F.env[&CB] = r; return true; }
  if (has(".max.s") || has(".min.s")) { VV a = arg(0), b = arg(1), r = a; r[0] = mk2(has(".max.") ? "x86max" : "x86min", a[0], b[0], true); F.env[&CB] = r; return true; }
  // horizontal add/sub: within each 128-bit half, pairs of a then pairs of b
  if (has(".hadd.p") || has(".hsub.p")) {
    VV a = arg(0), b = arg(1), r; size_t L = a.size(), per = 16 / rb; const char *op = has(".hadd.") ? "fadd" : "fsub"; bool comm = has(".hadd.");
    for (size_t h = 0; h < L / per; h++) { for (size_t i = 0; i < per / 2; i++) r.push_back(mk2(op, a[h * per + 2 * i], a[h * per + 2 * i + 1], true, comm)); for (size_t i = 0; i < per / 2; i++) r.push_back(mk2(op, b[h * per + 2 * i], b[h * per + 2 * i + 1], true, comm)); }
    F.env[&CB] = r; return true;
  }
  if (has("ssse3.phadd.d") || has("avx2.phadd.d") || has("ssse3.phsub.d") || has("avx2.phsub.d")) {
    VV a = arg(0), b = arg(1), r; size_t L = a.size(), per = 4; const char *op = has("phadd") ? "add" : "sub"; bool comm = has("phadd");
    for (size_t h = 0; h < L / per; h++) { for (size_t i = 0; i < 2; i++) r.push_back(mk2(op, a[h * per + 2 * i], a[h * per + 2 * i + 1], false, comm)); for (size_t i = 0; i < 2; i++) r.push_back(mk2(op, b[h * per + 2 * i], b[h * per + 2 * i + 1], false, comm)); }
    F.env[&CB] = r; return true;
  }
  // dot product with immediate: dpps / dppd
  if (has("sse41.dpp") || has("avx.dp.ps")) {
    VV a = arg(0), b = arg(1); AV im = arg(2)[0]; if (im.k != AV::INT) return false; VV r; size_t per = 16 / rb;
    for (size_t h = 0; h < a.size() / per; h++) {
      AV acc; bool any = false;
      for (size_t i = 0; i < per; i++) if ((im.i >> (4 + i)) & 1) { AV p = mk2("fmul", a[h * per + i], b[h * per + i], true, true); acc = any ? mk2("fadd", acc, p, true, true) : p; any = true; }
      if (!any) acc = cfpAV(0, rb);
      for (size_t i = 0; i < per; i++) r.push_back(((im.i >> i) & 1) ? acc : cfpAV(0, rb));
    }
    F.env[&CB] = r; return true;
  }
  // approximate reciprocal / reciprocal square root
  if (has(".rcp.p") || has("rcp14.p") || has("rcp28.p")) { VV a = arg(0), r; for (auto &v : a) r.push_back(mk1("x86rcp", v, true)); F.env[&CB] = r; return true; }
  if (has(".rsqrt.p") || has("rsqrt14.p") || has("rsqrt28.p")) { VV a = arg(0), r; for (auto &v : a) r.push_back(mk1("x86rsqrt", v, true)); F.env[&CB] = r; return true; }
  if (has(".rcp.s") || has(".rsqrt.s")) { VV a = arg(0), r = a; r[0] = mk1(has("rsqrt") ? "x86rsqrt" : "x86rcp", a[0], true); F.env[&CB] = r; return true; }
  if (has(".sqrt.p")) { VV a = arg(0), r; for (auto &v : a) r.push_back(mk1("sqrt", v, true)); F.env[&CB] = r; return true; }
  // rounding with immediate
  if (has("sse41.round.p") || has("avx.round.p")) { VV a = arg(0); AV im = arg(1)[0]; if (im.k != AV::INT) return false; static const char *nm[] = {"libm.roundeven", "libm.floor", "libm.ceil", "libm.trunc"}; if ((im.i & 4)) return false; VV r; for (auto &v : a) r.push_back(mk1(nm[im.i & 3], v, true)); F.env[&CB] = r; return true; }
  // AVX maskload / maskstore: a lane is enabled when the top bit of its mask element is set
  if (has("maskload")) {
    AV p = arg(0)[0]; VV m = arg(1), r; if (p.k != AV::PTR) { err("maskload through non-pointer"); return false; } masked++;
    for (size_t i = 0; i < m.size(); i++) {
      AV q = AV::Ptr(p.region, p.off + (int64_t)i * rb), zero = rfp ? cfpAV(0, rb) : AV::Int(0, rb);
      if (m[i].k == AV::INT) r.push_back(m[i].i < 0 ? load(q, rb, rfp, 1, src) : zero);
      else if (m[i].k == AV::T) { AV c = AV::Tm(TT.mk("signbit", {m[i].t}, 0, 1), 1); r.push_back(select(c, load(q, rb, rfp, 1, src), zero)); }
      else { err("maskload with undefined mask"); r.push_back(AV::Top(rb)); }
    }
    F.env[&CB] = r; return true;
  }
  if (has("maskstore")) {
    AV p = arg(0)[0]; VV m = arg(1), v = arg(2); int sz = sbytes(CB.getArgOperand(2)->getType()); if (p.k != AV::PTR) { err("maskstore through non-pointer"); return false; } masked++;
    for (size_t i = 0; i < m.size(); i++) {
      AV q = AV::Ptr(p.region, p.off + (int64_t)i * sz);
      if (m[i].k == AV::INT) { if (m[i].i < 0) store(q, v[i], sz, 1, src); }
      else if (m[i].k == AV::T) { AV c = AV::Tm(TT.mk("signbit", {m[i].t}, 0, 1), 1); AV old = load(q, sz, false, 1, src); store(q, select(c, v[i], old), sz, 1, src); }
      else err("maskstore with undefined mask");
    }
    return true;
  }
  // movmsk: sign bits to an integer
  if (has("movmsk")) {
    VV a = arg(0); bool allInt = true; uint64_t x = 0; std::vector<int> ids;
    for (size_t i = 0; i < a.size(); i++) {
      AV v = fixfp(a[i], false);
      if (v.k == AV::INT) { if (v.i < 0) x |= 1ULL << i; ids.push_back(TT.cint(v.i < 0 ? -1 : 0, 1)); }
      else { allInt = false; ids.push_back(v.k == AV::T ? TT.mk("signbit", {v.t}, 0, 1) : termOf(AV::Top(1))); }
    }
    F.env[&CB] = VV{allInt ? AV::Int((int64_t)x, rb) : AV::Tm(TT.mk("bits", ids, 0, rb), rb)}; return true;
  }
  // variable permutes with constant control
  if (has("vpermilvar.p")) { // within 128-bit halves; control element bits [1:0] (ps) / bit 1 (pd)
    VV a = arg(0), c = arg(1), r; size_t per = 16 / rb;
    for (size_t i = 0; i < a.size(); i++) { if (c[i].k != AV::INT) return false; size_t sel = rb == 4 ? (c[i].i & 3) : ((c[i].i >> 1) & 1); r.push_back(a[(i / per) * per + sel]); }
    F.env[&CB] = r; return true;
  }
  if (has("avx2.permd") || has("avx2.permps") || has("avx512.permvar.")) {
    VV a = arg(0), c = arg(1), r; size_t L = a.size();
    for (size_t i = 0; i < L; i++) { if (c[i].k != AV::INT) return false; r.push_back(a[(uint64_t)c[i].i % L]); }
    F.env[&CB] = r; return true;
  }
  if (has("vpermi2var")) { VV a = arg(0), c = arg(1), b = arg(2), r; size_t L = a.size(); for (size_t i = 0; i < L; i++) { if (c[i].k != AV::INT) return false; uint64_t s = (uint64_t)c[i].i % (2 * L); r.push_back(s < L ? a[s] : b[s - L]); } F.env[&CB] = r; return true; }
  if (has("pshuf.b")) {
    VV a = arg(0), c = arg(1), r; for (size_t i = 0; i < a.size(); i++) { if (c[i].k != AV::INT) return false; if (c[i].i & 0x80) r.push_back(AV::Int(0, 1)); else r.push_back(a[(i / 16) * 16 + (c[i].i & 15)]); }
    F.env[&CB] = r; return true;
  }
  // integer shifts by immediate / scalar count
  if (has("psrai.") || has("psrli.") || has("pslli.")) {
    VV a = arg(0); AV c = arg(1)[0]; if (c.k != AV::INT) return false; VV r; int bits = rb * 8; unsigned opc = has("psrai") ? Instruction::AShr : has("psrli") ? Instruction::LShr : Instruction::Shl;
    for (auto &v : a) { if (c.i >= bits) { r.push_back(opc == Instruction::AShr ? binop(opc, v, AV::Int(bits - 1, rb), bits) : AV::Int(0, rb)); } else r.push_back(binop(opc, v, AV::Int(c.i, rb), bits)); }
    F.env[&CB] = r; return true;
  }
  // widening multiplies
  if (has("pmulu.dq") || has("pmul.dq")) { return false; }
  // conversions
  if (has("cvtdq2ps") || has("cvtdq2pd")) { VV a = arg(0), r; for (size_t i = 0; i < (size_t)leafCount(RT); i++) r.push_back(mk1("sitofp", a[i], true)); F.env[&CB] = r; return true; }
  if (has("cvttps2dq") || has("cvttpd2dq")) { VV a = arg(0), r; for (auto &v : a) r.push_back(mk1("fptosi", v, false)); while (r.size() < leafCount(RT)) r.push_back(AV::Int(0, rb)); F.env[&CB] = r; return true; }
  if (has("cvtps2dq") || has("cvtpd2dq")) { VV a = arg(0), r; for (auto &v : a) r.push_back(mk1("x86cvt.rint", v, false)); while (r.size() < leafCount(RT)) r.push_back(AV::Int(0, rb)); F.env[&CB] = r; return true; }
  if (has("cvtpd2ps")) { VV a = arg(0), r; for (auto &v : a) r.push_back(mk1("fptrunc", v, true)); while (r.size() < leafCount(RT)) r.push_back(cfpAV(0, rb)); F.env[&CB] = r; return true; }
  // blendv: select by the sign bit of the mask lane
  if (has("blendv")) {
    VV a = arg(0), b = arg(1), m = arg(2), r;
    for (size_t i = 0; i < a.size(); i++) { AV mv = fixfp(m[i], false); if (mv.k == AV::INT) r.push_back(mv.i < 0 ? b[i] : a[i]); else if (mv.k == AV::T) r.push_back(select(AV::Tm(TT.mk("signbit", {mv.t}, 0, 1), 1), b[i], a[i])); else r.push_back(AV::Top(rb)); }
    F.env[&CB] = r; return true;
  }
  // addsub
  if (has("addsub.p")) { VV a = arg(0), b = arg(1), r; for (size_t i = 0; i < a.size(); i++) r.push_back(mk2(i % 2 ? "fadd" : "fsub", a[i], b[i], true, i % 2)); F.env[&CB] = r; return true; }
  // fused multiply-add family (explicit, rounded once)
  if (has("vfmadd.p") || has("fma.vfmadd")) { VV a = arg(0), b = arg(1), c = arg(2), r; for (size_t i = 0; i < a.size(); i++) { int x = termOf(a[i]), y = termOf(b[i]); if (y < x) std::swap(x, y); r.push_back(AV::Tm(TT.mk("fma", {x, y, termOf(c[i])}, 0, rb), rb, true)); } F.env[&CB] = r; return true; }
  if (has("sse2.pause") || has("sse.sfence") || has("sse2.lfence") || has("sse2.mfence")) return true;
  return false;
}

} // namespace irf
