// irflow: abstract interpreter over LLVM IR (constant-propagation domain for indices and
// control, term domain for data, gated merge for data-dependent branches). DESIGN.md §3.1.
#pragma once
#include "terms.h"
#include "llvm/IR/Module.h"
#include "llvm/IR/Instructions.h"
#include "llvm/IR/DataLayout.h"
#include <unordered_map>
#include <functional>
#include <memory>

namespace irf {

struct ByteRef { int cell = -1; int idx = 0; };
struct Cell { AV v; int width; int src; };
struct Region {
  std::string name;
  int64_t size = 0;       // bytes addressable
  int esz = 1;            // element size in bytes (for reporting and symbol cells)
  bool efp = false;
  enum Role { IN, OUT, INOUT, LOCAL } role = LOCAL;
  int align = 1;          // alignment the caller guarantees for byte 0
  bool declared = false;  // a region of the witness signature (vs alloca / global)
  std::vector<ByteRef> bytes;
  std::vector<uint8_t> written;
};
struct State { std::vector<Region> R; std::vector<Cell> cells; };

typedef std::vector<std::pair<int, bool>> Cube; // sorted literals (condition term, polarity)
struct Guard {
  std::vector<Cube> cubes; // DNF; {} = false, {{}} = true
  static Guard True() { Guard g; g.cubes.push_back({}); return g; }
  static Guard False() { return Guard(); }
  bool isTrue() const { return cubes.size() == 1 && cubes[0].empty(); }
  bool isFalse() const { return cubes.empty(); }
};
Guard gAndLit(const Guard &g, int term, bool pos);
Guard gAnd(const Guard &a, const Guard &b);
Guard gOr(const Guard &a, const Guard &b);
Cube gCommon(const std::vector<Guard> &gs);
int gTerm(const Guard &g, const Cube &strip);
std::string gStr(const Guard &g);

extern std::map<std::string, std::set<int>> g_linesTouched;
struct SrcLoc { std::string file; int line; std::string func; };

struct Finding { // a standing-obligation failure observed while interpreting a monitored stage
  std::string kind; // oob-load, oob-store, store-to-input, misaligned, alloc, ...
  std::string region; int64_t off; int n; int align; int src; std::string detail;
};

struct Interp {
  llvm::Module *M = nullptr; // module of the function currently entered (set per stage)
  const llvm::DataLayout *DL = nullptr;
  State S;
  long steps = 0, maxSteps = 400000000L;
  int depth = 0;
  int fastorCallDepth = 0;   // number of active (non-inlined) calls made from instructions of the library
  bool monitor = false;      // standing obligations are recorded only for monitored (Fastor) stages
  std::map<std::string, int> unsupported;
  std::vector<Finding> findings;
  std::vector<SrcLoc> srcs;
  std::map<std::string, int> srcIx;
  std::unordered_map<const llvm::Instruction *, int> srcCache;
  std::unordered_map<const llvm::Instruction *, std::vector<int>> fnCache;
  std::vector<std::string> fnNames; std::map<std::string, int> fnIx; std::set<int> fnTouched;
  std::set<std::string> intrinsicsSeen;
  std::set<std::string> calleesSeen; // non-inlined Fastor callees entered
  std::vector<std::string> abnormal;  // guards of abnormal terminations (throw / abort / unreachable)
  bool abnormalUnconditional = false;
  long merges = 0, symbolicBranches = 0, masked = 0, layoutAssumed = 0, symbolicIndexGeps = 0;
  std::map<const llvm::GlobalVariable *, int> gmap;
  std::string repoPrefix = "/repo/";

  typedef std::unordered_map<const llvm::Value *, VV> Env;
  struct Frame { Env env; };
  struct Result { VV val; Guard normal = Guard::False(); };

  void err(const std::string &s) { unsupported[s]++; }
  void find(const std::string &kind, int region, int64_t off, int n, int align, int src, const std::string &detail = "");
  int newCell(const AV &v, int w, int src = -1) { S.cells.push_back({v, w, src}); return (int)S.cells.size() - 1; }
  int addRegion(const Region &G) { S.R.push_back(G); Region &X = S.R.back(); X.bytes.assign((size_t)X.size, ByteRef()); X.written.assign((size_t)X.size, 0); return (int)S.R.size() - 1; }
  void setCell(int r, int64_t off, const AV &v, int w) { int c = newCell(v, w); for (int i = 0; i < w; i++) S.R[r].bytes[off + i] = {c, i}; }

  // bytes
  AV piece(const AV &v, int lo, int len);
  AV assemble(const std::vector<std::pair<AV, std::pair<int, int>>> &ps, int total, bool fp);
  AV fixfp(AV v, bool fp);
  AV load(const AV &p, int n, bool fp, int align, int src);
  AV peek(int region, int64_t off, int n, bool fp); // load without monitoring
  void store(const AV &p, const AV &v, int n, int align, int src);
  AV ptrAdd(const AV &p, int64_t off);   // pointer arithmetic through pointer selects
  AV liftIndex(const AV &idx, const std::function<AV(int64_t)> &f, int &budget, std::map<int, bool> *assume = nullptr); // map f over the constant leaves of a select tree of integers
  bool isChoiceTree(int t, int &budget, bool &hasSelect);
  AV liftPtr(const AV &p, const std::function<AV(const AV &)> &f, int &budget, std::map<int, bool> *assume);
  AV simplifyChoice(const AV &v, bool isBool); // an integer computed from finite choices of constants is itself a finite choice: re-express it as one
  bool isPtrSel(const AV &p) const { return p.k == AV::T && TT.t[p.t].op == TT.OP_SELECT && p.bytes == 8; }

  // values
  AV constScalar(const llvm::Constant *C);
  int globalRegion(const llvm::GlobalVariable *GV);
  void initConst(int r, int64_t off, const llvm::Constant *C);
  VV get(Frame &F, const llvm::Value *V);
  VV constLeaves(const llvm::Constant *C);
  int sbytes(llvm::Type *T);
  unsigned leafCount(llvm::Type *T);
  void leafLayout(llvm::Type *T, int64_t base, std::vector<std::pair<llvm::Type *, int64_t>> &out);

  AV binop(unsigned opc, const AV &a, const AV &b, int bits);
  AV icmp(llvm::CmpInst::Predicate P, const AV &a, const AV &b, int bits);
  AV fcmp(llvm::CmpInst::Predicate P, const AV &a, const AV &b);
  AV select(const AV &c, const AV &a, const AV &b);
  AV castv(llvm::CastInst *C, const AV &v);

  // execution
  Result run(llvm::Function &Fn, const std::vector<VV> &args);
  void mergeStates(const AV &c, State &s1, State &s2); // S := select(c, s1, s2)
  bool step(llvm::Function &Fn, Frame &F, llvm::Instruction &I, Guard &guard); // false: path ends abnormally
  bool call(llvm::Function &Fn, Frame &F, llvm::CallBase &CB, Guard &guard);
  bool x86call(const std::string &n, Frame &F, llvm::CallBase &CB);
  int srcOf(const llvm::Instruction &I);
  void touch(const llvm::Instruction &I);
  void abnormalExit(const Guard &g, const std::string &why, const llvm::Instruction &I);
};

} // namespace irf
