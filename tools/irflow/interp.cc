// irflow: abstract interpreter — see interp.h
#include "interp.h"
#include "norm.h"
static inline int64_t sextBits(uint64_t x, int bits) { return bits >= 64 ? (int64_t)x : (int64_t)(x << (64 - bits)) >> (64 - bits); }
#include "llvm/IR/IntrinsicInst.h"
#include "llvm/IR/InlineAsm.h"
#include "llvm/IR/Constants.h"
#include "llvm/IR/Dominators.h"
#include "llvm/IR/Operator.h"
#include "llvm/IR/DebugInfoMetadata.h"
#include "llvm/IR/GetElementPtrTypeIterator.h"
#include "llvm/Analysis/LoopInfo.h"
#include "llvm/Support/raw_ostream.h"
#include <cmath>

using namespace llvm;
namespace irf {

OpTable OPS;
Terms TT;

// ================================================================ guards
static bool cubeSubset(const Cube &a, const Cube &b) { return std::includes(b.begin(), b.end(), a.begin(), a.end()); }
static void gSimplify(std::vector<Cube> &cs) {
  bool changed = true;
  while (changed) {
    changed = false;
    std::sort(cs.begin(), cs.end());
    cs.erase(std::unique(cs.begin(), cs.end()), cs.end());
    for (size_t i = 0; i < cs.size() && !changed; i++)
      for (size_t j = 0; j < cs.size() && !changed; j++) {
        if (i == j) continue;
        if (cubeSubset(cs[i], cs[j])) { cs.erase(cs.begin() + j); changed = true; break; }
        if (cs[i].size() == cs[j].size() && i < j) { // resolution: differ in the polarity of exactly one literal
          int diff = -1; bool ok = true;
          for (size_t k = 0; k < cs[i].size() && ok; k++) {
            if (cs[i][k] == cs[j][k]) continue;
            if (cs[i][k].first == cs[j][k].first && diff < 0) diff = (int)k; else ok = false;
          }
          if (ok && diff >= 0) { Cube m = cs[i]; m.erase(m.begin() + diff); cs.erase(cs.begin() + j); cs[i] = m; changed = true; break; }
        }
      }
  }
}
Guard gAndLit(const Guard &g, int term, bool pos) {
  Guard r;
  for (auto &c : g.cubes) {
    bool dead = false, has = false;
    for (auto &l : c) if (l.first == term) { if (l.second == pos) has = true; else dead = true; }
    if (dead) continue;
    Cube n = c;
    if (!has) { n.push_back({term, pos}); std::sort(n.begin(), n.end()); }
    r.cubes.push_back(n);
  }
  gSimplify(r.cubes);
  return r;
}
Guard gAnd(const Guard &a, const Guard &b) {
  if (a.isTrue()) return b;
  if (b.isTrue()) return a;
  Guard r;
  for (auto &x : a.cubes) {
    Guard t; t.cubes.push_back(x);
    for (auto &y : b.cubes) {
      Guard u = t;
      for (auto &l : y) { u = gAndLit(u, l.first, l.second); if (u.isFalse()) break; }
      for (auto &c : u.cubes) r.cubes.push_back(c);
    }
  }
  gSimplify(r.cubes);
  return r;
}
Guard gOr(const Guard &a, const Guard &b) { Guard r = a; for (auto &c : b.cubes) r.cubes.push_back(c); gSimplify(r.cubes); return r; }
Cube gCommon(const std::vector<Guard> &gs) {
  Cube common; bool first = true;
  for (auto &g : gs) for (auto &c : g.cubes) {
    if (first) { common = c; first = false; continue; }
    Cube n; std::set_intersection(common.begin(), common.end(), c.begin(), c.end(), std::back_inserter(n)); common = n;
  }
  return common;
}
int gTerm(const Guard &g, const Cube &strip) {
  std::vector<int> ors;
  for (auto &c : g.cubes) {
    std::vector<int> ands;
    for (auto &l : c) {
      if (std::binary_search(strip.begin(), strip.end(), l)) continue;
      ands.push_back(l.second ? l.first : TT.mk(TT.OP_NOT, {l.first}, 0, 1));
    }
    if (ands.empty()) return TT.cint(-1, 1);
    std::sort(ands.begin(), ands.end());
    ors.push_back(ands.size() == 1 ? ands[0] : TT.mk(TT.OP_GAND, ands, 0, 1));
  }
  if (ors.empty()) return TT.cint(0, 1);
  std::sort(ors.begin(), ors.end());
  return ors.size() == 1 ? ors[0] : TT.mk(TT.OP_GOR, ors, 0, 1);
}
std::string gStr(const Guard &g) { return TT.str(gTerm(g, Cube())); }

// literal of a condition value: strips negations
static std::pair<int, bool> litOf(const AV &c) {
  int t = termOf(c); bool pos = true;
  while (true) {
    const Term &x = TT.t[t];
    if (x.op == TT.OP_NOT) { t = x.a[0]; pos = !pos; continue; }
    if (x.op == TT.OP_XOR && x.bytes == 1 && x.a.size() == 2) {
      const Term &p = TT.t[x.a[0]], &q = TT.t[x.a[1]];
      if (p.op == TT.OP_C && (p.k & 1)) { t = x.a[1]; pos = !pos; continue; }
      if (q.op == TT.OP_C && (q.k & 1)) { t = x.a[0]; pos = !pos; continue; }
    }
    break;
  }
  return {t, pos};
}

// ================================================================ source locations
int Interp::srcOf(const Instruction &I) {
  auto it = srcCache.find(&I);
  if (it != srcCache.end()) return it->second;
  int id = -1;
  const DILocation *L = I.getDebugLoc().get();
  // innermost frame under the repository's Fastor/ directory
  for (const DILocation *P = L; P; P = P->getInlinedAt()) {
    std::string f = (P->getDirectory() + "/" + P->getFilename()).str();
    if (P->getFilename().startswith("/")) f = P->getFilename().str();
    if (f.find("/Fastor/") != std::string::npos) {
      std::string fn; if (auto *SP = P->getScope()->getSubprogram()) fn = SP->getName().str();
      std::string key = f + ":" + std::to_string(P->getLine());
      auto jt = srcIx.find(key);
      if (jt == srcIx.end()) { srcs.push_back({f, (int)P->getLine(), fn}); id = srcIx[key] = (int)srcs.size() - 1; } else id = jt->second;
      break;
    }
  }
  srcCache[&I] = id;
  return id;
}
std::map<std::string, std::set<int>> g_linesTouched; // source lines of the library that contributed interpreted instructions (coverage accounting)
void Interp::touch(const Instruction &I) {
  auto it = fnCache.find(&I);
  if (it == fnCache.end()) {
    std::vector<int> v;
    for (const DILocation *P = I.getDebugLoc().get(); P; P = P->getInlinedAt()) {
      std::string f = P->getFilename().str();
      size_t p = f.find("Fastor/");
      if (p == std::string::npos) continue;
      std::string fn; if (auto *SP = P->getScope()->getSubprogram()) fn = SP->getName().str();
      size_t lt = fn.find('<'); if (lt != std::string::npos && lt > 0 && fn.compare(0, 8, "operator") != 0) fn = fn.substr(0, lt);
      g_linesTouched[f.substr(f.rfind("Fastor/"))].insert((int)P->getLine());
      std::string key = f.substr(f.rfind("Fastor/")) + "::" + fn;
      auto jt = fnIx.find(key);
      int id; if (jt == fnIx.end()) { fnNames.push_back(key); id = fnIx[key] = (int)fnNames.size() - 1; } else id = jt->second;
      v.push_back(id);
    }
    it = fnCache.emplace(&I, v).first;
  }
  for (int id : it->second) fnTouched.insert(id);
}
void Interp::find(const std::string &kind, int region, int64_t off, int n, int align, int src, const std::string &detail) {
  if (findings.size() > 200) return;
  for (auto &f : findings) if (f.kind == kind && f.off == off && f.n == n && f.src == src && f.region == (region >= 0 ? S.R[region].name : "?")) return;
  findings.push_back({kind, region >= 0 && region < (int)S.R.size() ? S.R[region].name : "?", off, n, align, src, detail});
}
void Interp::abnormalExit(const Guard &g, const std::string &why, const Instruction &I) {
  if (g.isTrue() && depth <= 1) abnormalUnconditional = true;
  if (abnormal.size() < 16) { int s = srcOf(I); abnormal.push_back(why + " under " + gStr(g) + (s >= 0 ? " at " + srcs[s].file + ":" + std::to_string(srcs[s].line) : "")); }
}

// ================================================================ bytes
AV Interp::piece(const AV &v, int lo, int len) {
  if (lo == 0 && len == v.bytes) return v;
  if (v.k == AV::INT) {
    if (lo >= 8) return AV::Int(v.i < 0 ? -1 : 0, len > 8 ? 8 : len).bytes == len ? AV::Int(v.i < 0 ? -1 : 0, len) : AV::Int(v.i < 0 ? -1 : 0, len);
    if (len > 8 - lo && len + lo > 8) { // spans beyond the 64 stored bits: sign fill
      std::vector<std::pair<AV, std::pair<int, int>>> ps; ps.push_back({AV::Int(v.i, 8), {lo, 8 - lo}}); ps.push_back({AV::Int(v.i < 0 ? -1 : 0, len - (8 - lo)), {0, len - (8 - lo)}});
      if (len <= 8) return assemble(ps, len, false);
      std::vector<int> ids; ids.push_back(termOf(piece(AV::Int(v.i, 8), lo, 8 - lo))); int rest = len - (8 - lo); while (rest > 0) { int w = rest > 8 ? 8 : rest; ids.push_back(TT.cint(v.i < 0 ? -1 : 0, w)); rest -= w; }
      return AV::Tm(TT.mk(TT.OP_CONCAT, ids, 0, len), len);
    }
    uint64_t x = (uint64_t)v.i >> (8 * lo);
    if (len < 8) x &= ((1ULL << (8 * len)) - 1);
    int64_t sx = (int64_t)x;
    if (len < 8) sx = (int64_t)(x << (64 - 8 * len)) >> (64 - 8 * len);
    return AV::Int(sx, len);
  }
  if (v.k == AV::UNDEF) return AV::Undef(len);
  if (v.k == AV::TOP) return AV::Top(len);
  if (v.k == AV::PTR) { err("piece of pointer"); return AV::Top(len); }
  int t = v.t; const Term &x = TT.t[t];
  if (x.op == TT.OP_CONCAT) {
    int pos = 0;
    for (int a : x.a) {
      int w = TT.t[a].bytes;
      if (lo >= pos && lo + len <= pos + w) return piece(avOfTerm(a), lo - pos, len);
      pos += w;
    }
  }
  if (x.op == TT.OP_PIECE) return piece(avOfTerm(x.a[0]), (int)x.k + lo, len);
  if (x.op == TT.OP_CF) {
    int64_t bits = x.k;
    if (x.bytes == 4) { float f = (float)TT.cfval(t); uint32_t u; memcpy(&u, &f, 4); bits = (int32_t)u; }
    return piece(AV::Int(bits, x.bytes), lo, len);
  }
  if (x.op == TT.OP_ZEXT) { // bytes above the source width are zero
    int sb = TT.t[x.a[0]].bytes;
    if (lo >= sb) return AV::Int(0, len);
    if (lo + len <= sb) return piece(avOfTerm(x.a[0]), lo, len);
  }
  return AV::Tm(TT.mk(TT.OP_PIECE, {t}, lo, len), len);
}
AV Interp::fixfp(AV v, bool fp) {
  if (fp && v.k == AV::INT) {
    double d;
    if (v.bytes == 4) { uint32_t u = (uint32_t)v.i; float f; memcpy(&f, &u, 4); d = f; if (std::isnan(f)) { v.fp = false; return AV::Tm(TT.mk("nanbits", {}, v.i, 4), 4, true); } }
    else if (v.bytes == 8) { memcpy(&d, &v.i, 8); if (std::isnan(d)) return AV::Tm(TT.mk("nanbits", {}, v.i, 8), 8, true); }
    else return v;
    return cfpAV(d, v.bytes);
  }
  if (!fp && v.k == AV::T && TT.t[v.t].op == TT.OP_CF) { AV r = piece(AV::Tm(v.t, v.bytes), 0, v.bytes); int64_t bits = TT.t[v.t].k; if (v.bytes == 4) { float f = (float)TT.cfval(v.t); uint32_t u; memcpy(&u, &f, 4); bits = (int32_t)u; } (void)r; return AV::Int(bits, v.bytes); }
  if (!fp && v.k == AV::T && TT.t[v.t].op == OPS.id("nanbits")) return AV::Int(TT.t[v.t].k, v.bytes);
  if (v.k == AV::T && TT.t[v.t].op == TT.OP_SELECT && (v.bytes == 4 || v.bytes == 8)) {
    // a choice between constants moved through a register of the other kind (float <-> integer bit pattern): reinterpret the leaves
    const Term x = TT.t[v.t]; AV a = avOfTerm(x.a[1]), b = avOfTerm(x.a[2]);
    auto leafOrSel = [&](const AV &q) { return q.k == AV::INT || (q.k == AV::T && (TT.t[q.t].op == TT.OP_CF || TT.t[q.t].op == TT.OP_SELECT)); };
    if (leafOrSel(a) && leafOrSel(b)) {
      a.bytes = v.bytes; b.bytes = v.bytes; AV fa = fixfp(a, fp), fb = fixfp(b, fp);
      if (termOf(fa) != x.a[1] || termOf(fb) != x.a[2]) { AV r = select(avOfTerm(x.a[0]), fa, fb); r.fp = fp; return r; }
    }
  }
  v.fp = fp;
  return v;
}
AV Interp::assemble(const std::vector<std::pair<AV, std::pair<int, int>>> &ps, int total, bool fp) {
  std::vector<AV> parts;
  for (auto &p : ps) parts.push_back(piece(p.first, p.second.first, p.second.second));
  if (parts.size() == 1) return fixfp(parts[0], fp);
  bool allInt = true, anyTop = false, allUndef = true, anyPtr = false;
  for (auto &p : parts) { if (p.k != AV::INT) allInt = false; if (p.k == AV::TOP) anyTop = true; if (p.k != AV::UNDEF) allUndef = false; if (p.k == AV::PTR) anyPtr = true; }
  if (allInt && total <= 8) {
    uint64_t x = 0; int pos = 0;
    for (auto &p : parts) { uint64_t m = p.bytes >= 8 ? ~0ULL : ((1ULL << (8 * p.bytes)) - 1); x |= ((uint64_t)p.i & m) << (8 * pos); pos += p.bytes; }
    int64_t sx = (int64_t)x; if (total < 8) sx = (int64_t)(x << (64 - 8 * total)) >> (64 - 8 * total);
    return fixfp(AV::Int(sx, total), fp);
  }
  if (anyTop || anyPtr) return AV::Top(total);
  if (allUndef) return AV::Undef(total);
  { // consecutive pieces of one base term?
    int base = -1, next = 0; bool ok = true;
    for (auto &p : parts) {
      if (p.k != AV::T) { ok = false; break; }
      const Term &x = TT.t[p.t];
      if (x.op != TT.OP_PIECE) { ok = false; break; }
      if (base < 0) base = x.a[0];
      if (x.a[0] != base || x.k != next) { ok = false; break; }
      next += x.bytes;
    }
    if (ok && base >= 0 && TT.t[base].bytes == total && next == total) return fixfp(avOfTerm(base), fp);
  }
  std::vector<int> ids;
  for (auto &p : parts) ids.push_back(termOf(p));
  return AV::Tm(TT.mk(TT.OP_CONCAT, ids, 0, total), total, fp);
}
AV Interp::peek(int r, int64_t off, int n, bool fp) {
  Region &G = S.R[r];
  if (off < 0 || off + n > G.size) return AV::Top(n);
  std::vector<std::pair<AV, std::pair<int, int>>> ps;
  for (int i = 0; i < n;) {
    ByteRef b = G.bytes[off + i];
    if (b.cell < 0) { int len = 1; while (i + len < n && G.bytes[off + i + len].cell < 0) len++; ps.push_back({AV::Undef(len), {0, len}}); i += len; continue; }
    int len = 1;
    while (i + len < n) { ByteRef c = G.bytes[off + i + len]; if (c.cell != b.cell || c.idx != b.idx + len) break; len++; }
    ps.push_back({S.cells[b.cell].v, {b.idx, len}});
    i += len;
  }
  return assemble(ps, n, fp);
}
AV Interp::load(const AV &p, int n, bool fp, int align, int src) {
  if (p.k == AV::T && TT.t[p.t].op == TT.OP_SELECT) { // a pointer chosen by a data-dependent condition (std::min/max return references at -O0)
    const Term x = TT.t[p.t]; AV pa = avOfTerm(x.a[1]), pb = avOfTerm(x.a[2]);
    if ((pa.k == AV::PTR || (pa.k == AV::T && TT.t[pa.t].op == TT.OP_SELECT)) && (pb.k == AV::PTR || (pb.k == AV::T && TT.t[pb.t].op == TT.OP_SELECT))) {
      AV va = load(pa, n, fp, align, src), vb = load(pb, n, fp, align, src);
      return select(avOfTerm(x.a[0]), va, vb);
    }
  }
  if (p.k != AV::PTR || p.region < 0 || p.region >= (int)S.R.size()) { err(p.k == AV::TOP || p.k == AV::T ? "load through data-dependent address" : "load via non-pointer"); return AV::Top(n); }
  Region &G = S.R[p.region];
  if (p.off < 0 || p.off + n > G.size) {
    if (monitor) find("oob-load", p.region, p.off, n, align, src, "region size " + std::to_string(G.size));
    else err("out-of-region load in an unmonitored stage (" + G.name + ")");
    return AV::Top(n);
  }
  if (monitor && align > 1 && G.declared) { // placement of compiler-managed locals is the compiler's business (trusted base)
    int64_t g = G.align; if (p.off) { int64_t lowbit = p.off & -p.off; g = std::min<int64_t>(g, lowbit); }
    if (align > g) find("misaligned", p.region, p.off, n, align, src, "guaranteed alignment " + std::to_string(g));
  }
  return peek(p.region, p.off, n, fp);
}
void Interp::store(const AV &p, const AV &v, int n, int align, int src) {
  if (p.k == AV::T && TT.t[p.t].op == TT.OP_SELECT) { // store through a pointer chosen by a data-dependent condition: each candidate cell keeps its value unless chosen
    const Term x = TT.t[p.t]; AV c = avOfTerm(x.a[0]), pa = avOfTerm(x.a[1]), pb = avOfTerm(x.a[2]);
    auto okp = [&](const AV &q) { return q.k == AV::PTR || (q.k == AV::T && TT.t[q.t].op == TT.OP_SELECT); };
    if (okp(pa) && okp(pb)) {
      bool m = monitor; monitor = false; AV oa = load(pa, n, v.fp, 1, src); monitor = m;
      store(pa, select(c, v, oa), n, align, src);
      monitor = false; AV ob = load(pb, n, v.fp, 1, src); monitor = m;
      store(pb, select(c, ob, v), n, align, src);
      return;
    }
  }
  if (p.k != AV::PTR || p.region < 0 || p.region >= (int)S.R.size()) { err(p.k == AV::TOP || p.k == AV::T ? "store through data-dependent address" : "store via non-pointer"); return; }
  Region &G = S.R[p.region];
  if (p.off < 0 || p.off + n > G.size) {
    if (monitor) find("oob-store", p.region, p.off, n, align, src, "region size " + std::to_string(G.size));
    else err("out-of-region store in an unmonitored stage (" + G.name + ")");
    return;
  }
  if (monitor && align > 1 && G.declared) {
    int64_t g = G.align; if (p.off) { int64_t lowbit = p.off & -p.off; g = std::min<int64_t>(g, lowbit); }
    if (align > g) find("misaligned", p.region, p.off, n, align, src, "guaranteed alignment " + std::to_string(g));
  }
  if (monitor && G.declared && G.role == Region::IN) {
    AV old = peek(p.region, p.off, n, false); AV nv = v; nv.bytes = n;
    if (termOf(old) != termOf(fixfp(nv, false)) ) find("store-to-input", p.region, p.off, n, align, src, "");
  }
  AV vv = v; vv.bytes = n;
  int c = newCell(vv, n, src);
  for (int i = 0; i < n; i++) { G.bytes[p.off + i] = {c, i}; G.written[p.off + i] = 1; }
}

AV Interp::ptrAdd(const AV &p, int64_t off) {
  if (p.k == AV::PTR) return AV::Ptr(p.region, p.off + off);
  if (p.k == AV::T && TT.t[p.t].op == TT.OP_SELECT) {
    const Term x = TT.t[p.t]; AV a = ptrAdd(avOfTerm(x.a[1]), off), b = ptrAdd(avOfTerm(x.a[2]), off);
    if (a.k == AV::TOP || b.k == AV::TOP) return AV::Top(8);
    return select(avOfTerm(x.a[0]), a, b);
  }
  return AV::Top(8);
}
// An integer that is a select tree over constants (an index chosen by data-dependent comparisons, e.g. a pivot row)
// denotes finitely many values: f is applied to each and the results are recombined under the same conditions.
// the same for a pointer that is a select tree over concrete pointers (std::find over a row of data-dependent 0/1 entries)
AV Interp::liftPtr(const AV &p, const std::function<AV(const AV &)> &f, int &budget, std::map<int, bool> *assume) {
  if (--budget < 0) return AV::Top(8);
  if (p.k == AV::PTR) return f(p);
  if (!isPtrSel(p)) return AV::Top(8);
  // reuse the integer machinery on an index tree: leaves are numbered, conditions are shared
  std::vector<AV> leaves; std::function<int(int)> enc = [&](int t) -> int {
    const Term x = TT.t[t];
    if (x.op == TT.OP_PTR) { leaves.push_back(AV::Ptr(x.a[0], x.k)); return TT.cint((int64_t)leaves.size() - 1, 8); }
    if (x.op == TT.OP_SELECT) { int a = enc(x.a[1]), b = enc(x.a[2]); if (a < 0 || b < 0) return -1; return TT.mk(TT.OP_SELECT, {x.a[0], a, b}, 0, 8); }
    return -1; };
  int it = enc(p.t); if (it < 0) return AV::Top(8);
  return liftIndex(AV::Tm(it, 8), [&](int64_t k) { return (k >= 0 && k < (int64_t)leaves.size()) ? f(leaves[k]) : AV::Top(8); }, budget, assume);
}
static bool isBoolAtomOp(const Term &x) { const std::string &on = OPS.name(x.op); return x.bytes == 1 && (on.compare(0, 5, "icmp.") == 0 || on.compare(0, 5, "fcmp.") == 0 || x.op == TT.OP_NOT || x.op == TT.OP_GAND || x.op == TT.OP_GOR || x.op == TT.OP_TRUNC1 || on == "bit" || on == "signbit"); }
bool Interp::isChoiceTree(int t, int &budget, bool &hasSelect) {
  if (--budget < 0) return false;
  const Term &x = TT.t[t];
  if (x.op == TT.OP_C) return true;
  if (x.op == TT.OP_UNDEF || x.op == TT.OP_CF) return true;
  if (x.op == TT.OP_SYM || x.op == TT.OP_PTR || x.op == TT.OP_TOP || x.op == TT.OP_RATC) return false;
  if (x.op == TT.OP_SELECT) { hasSelect = true; return isChoiceTree(x.a[1], budget, hasSelect) && isChoiceTree(x.a[2], budget, hasSelect); }
  if (x.bytes > 8 || x.a.empty() || x.a.size() > 8) return false;
  if (x.op == TT.OP_FADD || x.op == TT.OP_FSUB || x.op == TT.OP_FMUL || x.op == TT.OP_FDIV || x.op == TT.OP_FNEG || x.op == TT.OP_FABS || x.op == TT.OP_SQRT || x.op == TT.OP_FMA || x.op == TT.OP_FMULADD) return false;
  std::vector<int> as = x.a; bool all = true; for (int a : as) if (!isChoiceTree(a, budget, hasSelect)) { all = false; break; }
  if (all) return true;
  if (isBoolAtomOp(x)) { hasSelect = true; return true; } // a data comparison used as 0/1: a two-way choice
  return false;
}
AV Interp::simplifyChoice(const AV &v, bool isBool) {
  if (v.k != AV::T) return v;
  int b1 = 200; bool hs = false; if (!isChoiceTree(v.t, b1, hs) || !hs) return v;
  int budget = 512; std::map<int, bool> assume; int by = v.bytes;
  AV r = liftIndex(v, [&](int64_t k) { return isBool ? AV::Int((k & 1) ? -1 : 0, 1) : AV::Int(k, by); }, budget, &assume);
  return r.k == AV::TOP ? v : r;
}
// An integer that is a select tree over constants (an index chosen by data-dependent comparisons, e.g. a pivot row)
// denotes finitely many values: f is applied to each and the results are recombined under the same conditions.
// `assume` carries the truth values fixed by the enclosing branches, so that infeasible combinations are not produced.
AV Interp::liftIndex(const AV &idx, const std::function<AV(int64_t)> &f, int &budget, std::map<int, bool> *assume) {
  if (--budget < 0) return AV::Top(8);
  if (idx.k == AV::INT) return f(idx.i);
  if (idx.k != AV::T) return AV::Top(8);
  const Term x = TT.t[idx.t];
  if (x.op == TT.OP_C) return f(x.k);
  if (x.op == TT.OP_CF) { double d = TT.cfval(idx.t); uint64_t b; if (x.bytes == 4) { float fl = (float)d; uint32_t u; memcpy(&u, &fl, 4); b = u; } else memcpy(&b, &d, 8); return f((int64_t)b); } // a floating constant leaf travels as its bit pattern (only comparisons consume it)
  if (x.op == TT.OP_SYM || x.op == TT.OP_PTR || x.op == TT.OP_TOP) return AV::Top(8);
  if (x.op == TT.OP_SELECT) {
    // the condition may be a compound of atoms (and/or/not/select of comparisons): evaluate it under the assumptions made by the
    // enclosing branches; if undetermined, split on one of its undetermined atoms and look at this select again
    std::map<int, bool> local; std::map<int, bool> *as = assume ? assume : &local;
    int undet = -1;
    std::function<int(int)> ev = [&](int c) -> int { // 1 true, 0 false, -1 unknown
      const Term &y = TT.t[c];
      if (y.op == TT.OP_C) return (y.k & 1) ? 1 : 0;
      if (y.op == TT.OP_NOT) { int v = ev(y.a[0]); return v < 0 ? -1 : !v; }
      if (y.op == TT.OP_XOR && y.bytes == 1 && y.a.size() == 2 && TT.t[y.a[0]].op == TT.OP_C) { int v = ev(y.a[1]); return v < 0 ? -1 : ((TT.t[y.a[0]].k & 1) ? !v : v); }
      if (y.op == TT.OP_SELECT && y.bytes == 1) { int c0 = ev(y.a[0]); if (c0 >= 0) return ev(y.a[c0 ? 1 : 2]); int p = ev(y.a[1]), q = ev(y.a[2]); return (p == q && p >= 0) ? p : -1; }
      if (y.op == TT.OP_GAND || (y.op == TT.OP_AND && y.bytes == 1)) { int res = 1; for (int a : y.a) { int v = ev(a); if (v == 0) return 0; if (v < 0) res = -1; } return res; }
      if (y.op == TT.OP_GOR || (y.op == TT.OP_OR && y.bytes == 1)) { int res = 0; for (int a : y.a) { int v = ev(a); if (v == 1) return 1; if (v < 0) res = -1; } return res; }
      auto it = as->find(c); if (it != as->end()) return it->second ? 1 : 0;
      if (undet < 0) undet = c;
      return -1; };
    int cv = ev(x.a[0]);
    if (cv >= 0) return liftIndex(avOfTerm(x.a[cv ? 1 : 2]), f, budget, as);
    if (undet < 0) return AV::Top(8);
    int atom = undet;
    (*as)[atom] = true; AV a = liftIndex(idx, f, budget, as);
    (*as)[atom] = false; AV b = a.k == AV::TOP ? a : liftIndex(idx, f, budget, as);
    as->erase(atom);
    if (a.k == AV::TOP) return a; if (b.k == AV::TOP) return b;
    if (a.k == AV::UNDEF) return b; if (b.k == AV::UNDEF) return a; // an uninitialised alternative is unreachable in a defined execution
    return select(AV::Tm(atom, 1), a, b);
  }
  if (x.op == TT.OP_UNDEF) return AV::Undef(x.bytes);
  bool intArgs = true; { int b2 = 64; bool hs = false; for (int a : x.a) if (!isChoiceTree(a, b2, hs)) intArgs = false; }
  if (isBoolAtomOp(x) && !intArgs) { // a truth value used as an integer (zext/sext of a data comparison): the two cases of the comparison
    AV c = AV::Tm(idx.t, 1); auto l = litOf(c);
    if (assume) { auto it = assume->find(l.first); if (it != assume->end()) return f((it->second == l.second) ? -1 : 0); }
    if (assume) (*assume)[l.first] = l.second;
    AV a = f(-1);
    if (assume) (*assume)[l.first] = !l.second;
    AV b = a.k == AV::TOP ? a : f(0);
    if (assume) assume->erase(l.first);
    if (a.k == AV::TOP) return a; if (b.k == AV::TOP) return b; return select(c, a, b);
  }
  if (x.bytes > 8 || x.a.empty() || x.a.size() > 8) return AV::Top(8);
  auto evalOp = [&](const std::vector<int64_t> &vals, int64_t &out) -> bool {
    std::vector<int> as; for (size_t i = 0; i < vals.size(); i++) as.push_back(TT.cint(vals[i], TT.t[x.a[i]].bytes));
    int t = TT.mk(x.op, as, x.k, x.bytes); std::unordered_map<int, uint64_t> m; uint64_t v;
    if (!evalBits(t, 0, m, v)) return false; out = sextBits(v, x.bytes * 8); return true; };
  std::vector<int64_t> vals;
  std::function<AV(size_t)> over = [&](size_t i) -> AV {
    if (i == x.a.size()) { int64_t o; return evalOp(vals, o) ? f(o) : AV::Top(8); }
    return liftIndex(avOfTerm(x.a[i]), [&](int64_t u) { vals.push_back(u); AV r = over(i + 1); vals.pop_back(); return r; }, budget, assume); };
  return over(0);
}

// ================================================================ constants and values
int Interp::sbytes(Type *T) {
  T = T->getScalarType();
  if (T->isPointerTy()) return 8;
  unsigned b = T->getPrimitiveSizeInBits();
  return (int)((b + 7) / 8);
}
unsigned Interp::leafCount(Type *T) {
  if (auto *ST = dyn_cast<StructType>(T)) { unsigned n = 0; for (unsigned i = 0; i < ST->getNumElements(); i++) n += leafCount(ST->getElementType(i)); return n; }
  if (auto *AT = dyn_cast<ArrayType>(T)) return AT->getNumElements() * leafCount(AT->getElementType());
  if (auto *VT = dyn_cast<FixedVectorType>(T)) return VT->getNumElements();
  return 1;
}
void Interp::leafLayout(Type *T, int64_t base, std::vector<std::pair<Type *, int64_t>> &out) {
  if (auto *ST = dyn_cast<StructType>(T)) { auto *SL = DL->getStructLayout(ST); for (unsigned i = 0; i < ST->getNumElements(); i++) leafLayout(ST->getElementType(i), base + SL->getElementOffset(i), out); return; }
  if (auto *AT = dyn_cast<ArrayType>(T)) { int64_t es = DL->getTypeAllocSize(AT->getElementType()); for (unsigned i = 0; i < AT->getNumElements(); i++) leafLayout(AT->getElementType(), base + i * es, out); return; }
  if (auto *VT = dyn_cast<FixedVectorType>(T)) { int64_t es = sbytes(VT->getElementType()); for (unsigned i = 0; i < VT->getNumElements(); i++) out.push_back({VT->getElementType(), base + i * es}); return; }
  out.push_back({T, base});
}
AV Interp::constScalar(const Constant *C) {
  Type *T = C->getType();
  int by = T->isPointerTy() ? 8 : (int)((T->getPrimitiveSizeInBits() + 7) / 8);
  if (auto *CI = dyn_cast<ConstantInt>(C)) {
    if (CI->getBitWidth() > 64) {
      if (CI->getValue().getMinSignedBits() <= 64) return AV::Int(CI->getValue().getSExtValue(), by);
      std::vector<int> ids; for (unsigned w = 0; w < CI->getBitWidth(); w += 64) { unsigned nb = std::min(64u, CI->getBitWidth() - w); ids.push_back(TT.cint((int64_t)CI->getValue().extractBitsAsZExtValue(nb, w), (int)(nb / 8))); }
      return AV::Tm(TT.mk(TT.OP_CONCAT, ids, 0, by), by);
    }
    return AV::Int(CI->getSExtValue(), by ? by : 1);
  }
  if (auto *CF = dyn_cast<ConstantFP>(C)) {
    if (T->isFloatTy()) { float f = CF->getValueAPF().convertToFloat(); if (std::isnan(f)) { uint32_t u; memcpy(&u, &f, 4); return AV::Tm(TT.mk("nanbits", {}, (int32_t)u, 4), 4, true); } return cfpAV(f, 4); }
    if (T->isDoubleTy()) { double d = CF->getValueAPF().convertToDouble(); if (std::isnan(d)) { int64_t u; memcpy(&u, &d, 8); return AV::Tm(TT.mk("nanbits", {}, u, 8), 8, true); } return cfpAV(d, 8); }
    err("fp constant type"); return AV::Top(by);
  }
  if (isa<UndefValue>(C)) return AV::Undef(by);
  if (isa<ConstantPointerNull>(C)) return AV::Ptr(-1, 0);
  if (isa<ConstantAggregateZero>(C)) return T->isFloatingPointTy() ? cfpAV(0, by) : AV::Int(0, by);
  if (auto *GV = dyn_cast<GlobalVariable>(C)) return AV::Ptr(globalRegion(GV), 0);
  if (auto *CE = dyn_cast<ConstantExpr>(C)) {
    if (CE->getOpcode() == Instruction::BitCast || CE->getOpcode() == Instruction::AddrSpaceCast) return constScalar(CE->getOperand(0));
    if (CE->getOpcode() == Instruction::GetElementPtr) {
      AV b = constScalar(CE->getOperand(0)); APInt off(64, 0);
      if (cast<GEPOperator>(CE)->accumulateConstantOffset(*DL, off) && b.k == AV::PTR) return AV::Ptr(b.region, b.off + off.getSExtValue());
    }
    if (CE->getOpcode() == Instruction::PtrToInt || CE->getOpcode() == Instruction::IntToPtr) return constScalar(CE->getOperand(0));
  }
  if (isa<Function>(C)) return AV::Tm(TT.mk("fnptr", {}, (int64_t)(intptr_t)C, 8), 8);
  err("constant kind"); return AV::Top(by);
}
int Interp::globalRegion(const GlobalVariable *GV) {
  auto it = gmap.find(GV);
  if (it != gmap.end()) return it->second;
  Region G; G.name = "@" + GV->getName().str(); G.size = DL->getTypeAllocSize(GV->getValueType()); G.esz = 1; G.role = Region::LOCAL;
  G.align = GV->getAlign() ? (int)GV->getAlign()->value() : (int)DL->getABITypeAlignment(GV->getValueType());
  int r = addRegion(G); gmap[GV] = r;
  if (GV->hasInitializer()) initConst(r, 0, GV->getInitializer());
  else if (monitor && GV->getName().contains("6Fastor")) find("undefined-global", r, 0, 0, 0, -1, "a Fastor object is referenced but not defined in the translation unit (header-only library: the program would not link): " + GV->getName().str().substr(0, 120));
  return r;
}
void Interp::initConst(int r, int64_t off, const Constant *C) {
  Type *T = C->getType();
  if (isa<StructType>(T) || isa<ArrayType>(T) || isa<FixedVectorType>(T)) {
    std::vector<std::pair<Type *, int64_t>> lay; leafLayout(T, off, lay);
    VV leaves = constLeaves(C);
    for (size_t i = 0; i < lay.size() && i < leaves.size(); i++) { int n = sbytes(lay[i].first); AV v = leaves[i]; v.bytes = n; setCell(r, lay[i].second, v, n); }
    return;
  }
  AV v = constScalar(C); int n = (int)DL->getTypeStoreSize(T); v.bytes = n; setCell(r, off, v, n);
}
VV Interp::constLeaves(const Constant *C) {
  Type *T = C->getType();
  if (isa<StructType>(T) || isa<ArrayType>(T) || isa<FixedVectorType>(T)) {
    VV r; unsigned n = isa<StructType>(T) ? cast<StructType>(T)->getNumElements() : isa<ArrayType>(T) ? cast<ArrayType>(T)->getNumElements() : cast<FixedVectorType>(T)->getNumElements();
    for (unsigned i = 0; i < n; i++) {
      Constant *e = C->getAggregateElement(i);
      if (!e) { Type *ET = isa<StructType>(T) ? cast<StructType>(T)->getElementType(i) : isa<ArrayType>(T) ? cast<ArrayType>(T)->getElementType() : cast<FixedVectorType>(T)->getElementType(); for (unsigned k = 0; k < leafCount(ET); k++) r.push_back(AV::Undef(0)); continue; }
      VV s = constLeaves(e); r.insert(r.end(), s.begin(), s.end());
    }
    return r;
  }
  return VV{constScalar(C)};
}
VV Interp::get(Frame &F, const Value *V) {
  auto it = F.env.find(V);
  if (it != F.env.end()) return it->second;
  if (auto *C = dyn_cast<Constant>(V)) return constLeaves(C);
  if (isa<MetadataAsValue>(V)) return VV{AV::Top(0)};
  err("unbound value"); return VV(leafCount(V->getType()), AV::Top(sbytes(V->getType())));
}

// ================================================================ scalar operations
static inline uint64_t maskBits(int bits) { return bits >= 64 ? ~0ULL : ((1ULL << bits) - 1); }
AV Interp::binop(unsigned opc, const AV &a, const AV &b, int bits) {
  int by = (bits + 7) / 8; if (!by) by = 1;
  if (a.k == AV::INT && b.k == AV::INT && bits > 64) { err("constant arithmetic wider than 64 bits"); return AV::Top(by); }
  if (a.k == AV::INT && b.k == AV::INT) {
    int64_t x = a.i, y = b.i, r = 0; uint64_t ux = (uint64_t)x & maskBits(bits), uy = (uint64_t)y & maskBits(bits);
    switch (opc) {
    case Instruction::Add: r = (int64_t)((uint64_t)x + (uint64_t)y); break;
    case Instruction::Sub: r = (int64_t)((uint64_t)x - (uint64_t)y); break;
    case Instruction::Mul: r = (int64_t)((uint64_t)x * (uint64_t)y); break;
    case Instruction::And: r = x & y; break;
    case Instruction::Or: r = x | y; break;
    case Instruction::Xor: r = x ^ y; break;
    case Instruction::Shl: r = uy >= 64 ? 0 : (int64_t)(ux << uy); break;
    case Instruction::LShr: r = uy >= 64 ? 0 : (int64_t)(ux >> uy); break;
    case Instruction::AShr: r = sextBits(ux, bits) >> (uy >= 63 ? 63 : uy); break;
    case Instruction::UDiv: if (!uy) { err("division by constant zero"); return AV::Top(by); } r = (int64_t)(ux / uy); break;
    case Instruction::URem: if (!uy) { err("division by constant zero"); return AV::Top(by); } r = (int64_t)(ux % uy); break;
    case Instruction::SDiv: if (!y) { err("division by constant zero"); return AV::Top(by); } r = sextBits(ux, bits) / sextBits(uy, bits); break;
    case Instruction::SRem: if (!y) { err("division by constant zero"); return AV::Top(by); } r = sextBits(ux, bits) % sextBits(uy, bits); break;
    default: err("integer opcode"); return AV::Top(by);
    }
    return AV::Int(sextBits((uint64_t)r & maskBits(bits), bits), by);
  }
  if (a.k == AV::PTR && b.k == AV::INT) {
    if (opc == Instruction::Add) return AV::Ptr(a.region, a.off + b.i);
    if (opc == Instruction::Sub) return AV::Ptr(a.region, a.off - b.i);
    if ((opc == Instruction::And || opc == Instruction::URem) && a.region >= 0) {
      int64_t m = opc == Instruction::And ? b.i : b.i - 1;
      if (m >= 0 && ((m + 1) & m) == 0 && S.R[a.region].align > m) return AV::Int(a.off & m, by);
      if (opc == Instruction::And && b.i < 0 && ((-b.i) & (-b.i - 1)) == 0 && S.R[a.region].align >= -b.i) return AV::Ptr(a.region, a.off & b.i);
    }
    err("pointer arithmetic beyond what the declared alignment decides"); return AV::Top(by);
  }
  if (a.k == AV::INT && b.k == AV::PTR && opc == Instruction::Add) return AV::Ptr(b.region, b.off + a.i);
  if (a.k == AV::PTR && b.k == AV::PTR) {
    if (opc == Instruction::Sub && a.region == b.region) return AV::Int(a.off - b.off, by);
    err("pointer-pointer arithmetic"); return AV::Top(by);
  }
  if (a.k == AV::TOP || b.k == AV::TOP) return AV::Top(by);
  bool fp = false, comm = false;
  switch (opc) {
  case Instruction::FAdd: case Instruction::FMul: fp = true; comm = true; break;
  case Instruction::FSub: case Instruction::FDiv: case Instruction::FRem: fp = true; break;
  case Instruction::Add: case Instruction::Mul: case Instruction::And: case Instruction::Or: case Instruction::Xor: comm = true; break;
  default: break;
  }
  if (!fp) { // identities that preserve every bit
    auto isC = [&](const AV &v, int64_t c) { return v.k == AV::INT && v.i == c; };
    auto allOnes = [&](const AV &v) { return v.k == AV::INT && (((uint64_t)v.i & maskBits(bits)) == maskBits(bits)); };
    if ((opc == Instruction::Add || opc == Instruction::Or || opc == Instruction::Xor || opc == Instruction::Sub || opc == Instruction::Shl || opc == Instruction::LShr || opc == Instruction::AShr) && isC(b, 0)) return a;
    if ((opc == Instruction::Add || opc == Instruction::Or || opc == Instruction::Xor) && isC(a, 0)) return b;
    if (opc == Instruction::Mul && isC(b, 1)) return a;
    if (opc == Instruction::Mul && isC(a, 1)) return b;
    if ((opc == Instruction::Mul || opc == Instruction::And) && (isC(a, 0) || isC(b, 0))) return AV::Int(0, by);
    if (opc == Instruction::And && allOnes(b)) return a;
    if (opc == Instruction::And && allOnes(a)) return b;
    if (opc == Instruction::Or && (allOnes(a) || allOnes(b))) return AV::Int(-1, by);
    if ((opc == Instruction::And || opc == Instruction::Or) && a == b) return a;
    if (bits == 1 && opc == Instruction::Xor) { if (allOnes(b)) { auto l = litOf(a); (void)l; return AV::Tm(TT.mk(TT.OP_NOT, {termOf(a)}, 0, 1), 1); } if (allOnes(a)) return AV::Tm(TT.mk(TT.OP_NOT, {termOf(b)}, 0, 1), 1); }
    // byte-granular shifts, masks and ors: resolve through piece/concat so that packing idioms stay transparent
    if ((opc == Instruction::Shl || opc == Instruction::LShr) && b.k == AV::INT && b.i % 8 == 0 && b.i > 0 && b.i < bits && bits % 8 == 0) {
      int sh = (int)b.i / 8; std::vector<std::pair<AV, std::pair<int, int>>> ps;
      if (opc == Instruction::Shl) { ps.push_back({AV::Int(0, sh), {0, sh}}); ps.push_back({a, {0, by - sh}}); }
      else { ps.push_back({a, {sh, by - sh}}); ps.push_back({AV::Int(0, sh), {0, sh}}); }
      return assemble(ps, by, false);
    }
    if ((opc == Instruction::And || opc == Instruction::Or) && (a.k == AV::INT || b.k == AV::INT) && bits % 8 == 0 && by > 1) {
      const AV &c = a.k == AV::INT ? a : b; const AV &v = a.k == AV::INT ? b : a; bool ok = true;
      auto byteOf = [&](int64_t x, int i) { return i >= 8 ? (x < 0 ? 0xFF : 0) : (int)(((uint64_t)x >> (8 * i)) & 0xFF); };
      for (int i = 0; i < by; i++) { int bv = byteOf(c.i, i); if (bv != 0 && bv != 0xFF) ok = false; }
      if (ok) {
        std::vector<std::pair<AV, std::pair<int, int>>> ps;
        for (int i = 0; i < by; i++) { int bv = byteOf(c.i, i); bool keep = (opc == Instruction::And) ? bv == 0xFF : bv == 0; if (keep) ps.push_back({v, {i, 1}}); else ps.push_back({AV::Int(opc == Instruction::And ? 0 : -1, 1), {0, 1}}); }
        // merge adjacent keeps
        std::vector<std::pair<AV, std::pair<int, int>>> ms;
        for (auto &p : ps) { if (!ms.empty() && ms.back().first == p.first && p.first.k != AV::INT && ms.back().second.first + ms.back().second.second == p.second.first) ms.back().second.second++; else ms.push_back(p); }
        return assemble(ms, by, false);
      }
    }
    if (opc == Instruction::Or && a.k == AV::T && b.k == AV::T && by > 1) { // or of values with disjoint known-zero bytes
      bool ok = true; std::vector<std::pair<AV, std::pair<int, int>>> ps;
      for (int i = 0; i < by && ok; i++) { AV pa = piece(a, i, 1), pb = piece(b, i, 1); bool za = pa.k == AV::INT && pa.i == 0, zb = pb.k == AV::INT && pb.i == 0; if (za) ps.push_back({b, {i, 1}}); else if (zb) ps.push_back({a, {i, 1}}); else ok = false; }
      if (ok) { std::vector<std::pair<AV, std::pair<int, int>>> ms; for (auto &p : ps) { if (!ms.empty() && ms.back().first == p.first && ms.back().second.first + ms.back().second.second == p.second.first) ms.back().second.second++; else ms.push_back(p); } return assemble(ms, by, false); }
    }
  }
  int x = termOf(a), y = termOf(b);
  if (comm && y < x) std::swap(x, y);
  return AV::Tm(TT.mk(Instruction::getOpcodeName(opc), {x, y}, 0, by), by, fp);
}
AV Interp::icmp(CmpInst::Predicate P, const AV &a, const AV &b, int bits) {
  auto cmp = [&](int64_t x, int64_t y, uint64_t ux, uint64_t uy) {
    switch (P) {
    case CmpInst::ICMP_EQ: return x == y; case CmpInst::ICMP_NE: return x != y;
    case CmpInst::ICMP_SLT: return x < y; case CmpInst::ICMP_SLE: return x <= y; case CmpInst::ICMP_SGT: return x > y; case CmpInst::ICMP_SGE: return x >= y;
    case CmpInst::ICMP_ULT: return ux < uy; case CmpInst::ICMP_ULE: return ux <= uy; case CmpInst::ICMP_UGT: return ux > uy; case CmpInst::ICMP_UGE: return ux >= uy;
    default: return false;
    }
  };
  if (a.k == AV::INT && b.k == AV::INT) {
    uint64_t ux = (uint64_t)a.i & maskBits(bits), uy = (uint64_t)b.i & maskBits(bits);
    return AV::Int(cmp(sextBits(ux, bits), sextBits(uy, bits), ux, uy) ? -1 : 0, 1);
  }
  if (a.k == AV::PTR && b.k == AV::PTR) {
    if (a.region == b.region) return AV::Int(cmp(a.off, b.off, (uint64_t)a.off, (uint64_t)b.off) ? -1 : 0, 1);
    if (P == CmpInst::ICMP_EQ) return AV::Int(0, 1);
    if (P == CmpInst::ICMP_NE) return AV::Int(-1, 1);
    // distinct objects are disjoint; their relative order is unspecified but fixed. Runtime overlap checks emitted by
    // LLVM's loop versioning are correct under every layout, so one consistent layout (regions in creation order, far apart) is assumed.
    layoutAssumed++;
    { int64_t x = a.region < 0 ? -1 : a.region, y = b.region < 0 ? -1 : b.region; return AV::Int(cmp(x, y, (uint64_t)(x + 1), (uint64_t)(y + 1)) ? -1 : 0, 1); }
  }
  if (a.k == AV::TOP || b.k == AV::TOP) return AV::Top(1);
  if (a == b) { bool v = (P == CmpInst::ICMP_EQ || P == CmpInst::ICMP_SLE || P == CmpInst::ICMP_SGE || P == CmpInst::ICMP_ULE || P == CmpInst::ICMP_UGE); return AV::Int(v ? -1 : 0, 1); }
  // icmp ne/eq (i1-valued term) against 0: the boolean itself
  if ((P == CmpInst::ICMP_NE || P == CmpInst::ICMP_EQ) && b.k == AV::INT && b.i == 0 && a.k == AV::T) {
    const Term &x = TT.t[a.t];
    if (x.op == TT.OP_ZEXT && x.k == 1) { AV inner = avOfTerm(x.a[0]); return P == CmpInst::ICMP_NE ? inner : AV::Tm(TT.mk(TT.OP_NOT, {x.a[0]}, 0, 1), 1); }
  }
  if (P == CmpInst::ICMP_EQ || P == CmpInst::ICMP_NE) { // one canonical atom per (in)equality: eq is the negation of ne, operands ordered
    int x = termOf(a), y = termOf(b); if (y < x) std::swap(x, y);
    int ne = TT.mk("icmp.ne", {x, y}, bits, 1);
    return P == CmpInst::ICMP_NE ? AV::Tm(ne, 1) : AV::Tm(TT.mk(TT.OP_NOT, {ne}, 0, 1), 1);
  }
  return AV::Tm(TT.mk(std::string("icmp.") + CmpInst::getPredicateName(P).str(), {termOf(a), termOf(b)}, bits, 1), 1);
}
AV Interp::fcmp(CmpInst::Predicate P, const AV &a, const AV &b) {
  if (a.k == AV::TOP || b.k == AV::TOP) return AV::Top(1);
  if (P == CmpInst::FCMP_FALSE) return AV::Int(0, 1);
  if (P == CmpInst::FCMP_TRUE) return AV::Int(-1, 1);
  if (a.k == AV::T && b.k == AV::T && TT.t[a.t].op == TT.OP_CF && TT.t[b.t].op == TT.OP_CF) {
    double x = TT.cfval(a.t), y = TT.cfval(b.t); bool v = false;
    switch (P) {
    case CmpInst::FCMP_OEQ: case CmpInst::FCMP_UEQ: v = x == y; break; case CmpInst::FCMP_ONE: case CmpInst::FCMP_UNE: v = x != y; break;
    case CmpInst::FCMP_OLT: case CmpInst::FCMP_ULT: v = x < y; break; case CmpInst::FCMP_OLE: case CmpInst::FCMP_ULE: v = x <= y; break;
    case CmpInst::FCMP_OGT: case CmpInst::FCMP_UGT: v = x > y; break; case CmpInst::FCMP_OGE: case CmpInst::FCMP_UGE: v = x >= y; break;
    case CmpInst::FCMP_ORD: v = true; break; case CmpInst::FCMP_UNO: v = false; break; default: break;
    }
    return AV::Int(v ? -1 : 0, 1);
  }
  return AV::Tm(TT.mk(std::string("fcmp.") + CmpInst::getPredicateName(P).str(), {termOf(a), termOf(b)}, a.bytes, 1), 1);
}
AV Interp::select(const AV &c, const AV &a, const AV &b) {
  if (c.k == AV::INT) return (c.i & 1) ? a : b;
  if (a == b) return a;
  if (a.k == AV::INT && b.k == AV::INT && a.bytes == 1 && b.bytes == 1 && c.k == AV::T && c.bytes == 1 && ((a.i ^ b.i) & 1)) return (a.i & 1) ? c : AV::Tm(TT.mk(TT.OP_NOT, {c.t}, 0, 1), 1); // select(c,true,false) == c
  if (c.k == AV::TOP) return AV::Top(a.bytes);
  if (c.k == AV::UNDEF) return AV::Top(a.bytes);
  auto l = litOf(c);
  int ta = termOf(a), tb = termOf(b);
  if (ta == tb) return a;
  if (!l.second) std::swap(ta, tb);
  // i1 selects are and/or
  AV r = AV::Tm(TT.mk(TT.OP_SELECT, {l.first, ta, tb}, 0, std::max(a.bytes, b.bytes)), std::max(a.bytes, b.bytes), a.fp || b.fp);
  return r;
}
AV Interp::castv(CastInst *C, const AV &v) {
  Type *ST = C->getSrcTy(), *DT = C->getDestTy();
  int sb = ST->getScalarSizeInBits(), dbits = DT->getScalarSizeInBits(); int db = sbytes(DT); if (!db) db = 1;
  bool dfp = DT->getScalarType()->isFloatingPointTy();
  if (isa<PtrToIntInst>(C) || isa<IntToPtrInst>(C)) return v;
  if (v.k == AV::TOP) return AV::Top(db);
  if (v.k == AV::UNDEF) return AV::Undef(db);
  if (v.k == AV::INT) {
    int64_t x = v.i;
    if (isa<ZExtInst>(C)) return AV::Int((int64_t)((uint64_t)x & maskBits(sb)), db);
    if (isa<SExtInst>(C)) return AV::Int(sextBits((uint64_t)x & maskBits(sb), sb), db);
    if (isa<TruncInst>(C)) return AV::Int(dbits == 1 ? ((x & 1) ? -1 : 0) : sextBits((uint64_t)x & maskBits(dbits), dbits), db);
    if (isa<SIToFPInst>(C)) return cfpAV((double)sextBits((uint64_t)x & maskBits(sb), sb), db);
    if (isa<UIToFPInst>(C)) return cfpAV((double)((uint64_t)x & maskBits(sb)), db);
  }
  if (v.k == AV::T && TT.t[v.t].op == TT.OP_CF) {
    double d = TT.cfval(v.t);
    if (isa<FPExtInst>(C)) return cfpAV(d, db);
    if (isa<FPTruncInst>(C)) return cfpAV((double)(float)d, db);
    if (isa<FPToSIInst>(C) && std::fabs(d) < 9e18) return AV::Int(sextBits((uint64_t)(int64_t)d & maskBits(dbits), dbits), db);
    if (isa<FPToUIInst>(C) && d >= 0 && d < 1.8e19) return AV::Int(sextBits((uint64_t)d & maskBits(dbits), dbits), db);
  }
  if (isa<TruncInst>(C)) {
    if (dbits == 1) return AV::Tm(TT.mk(TT.OP_TRUNC1, {termOf(v)}, 0, 1), 1);
    if (dbits % 8 == 0) return piece(v, 0, db);
  }
  if (isa<ZExtInst>(C) && v.k == AV::T && db > 8 && sb % 8 == 0) { std::vector<std::pair<AV, std::pair<int, int>>> ps; ps.push_back({v, {0, sb / 8}}); int rest = db - sb / 8; while (rest > 0) { int w = rest > 8 ? 8 : rest; ps.push_back({AV::Int(0, w), {0, w}}); rest -= w; } return assemble(ps, db, false); }
  if ((isa<ZExtInst>(C) || isa<SExtInst>(C)) && v.k == AV::T) return AV::Tm(TT.mk(isa<ZExtInst>(C) ? TT.OP_ZEXT : TT.OP_SEXT, {v.t}, sb, db), db);
  return AV::Tm(TT.mk(C->getOpcodeName(), {termOf(v)}, sb, db), db, dfp);
}

// ================================================================ state merge
void Interp::mergeStates(const AV &c, State &s1, State &s2) {
  merges++;
  State out = s1;
  size_t nr = std::max(s1.R.size(), s2.R.size());
  out.R.resize(nr);
  std::map<int, int> remap; // s2 cell id -> out cell id (for regions that exist only in s2)
  State saved; std::swap(saved, S);
  auto peekIn = [&](State &X, int r, int64_t off, int w) { std::swap(S, X); AV v = peek(r, off, w, false); std::swap(S, X); return v; };
  for (size_t r = 0; r < nr; r++) {
    bool in1 = r < s1.R.size() && s1.R[r].size > 0, in2 = r < s2.R.size() && s2.R[r].size > 0;
    if (!in2) continue;
    if (!in1) {
      out.R[r] = s2.R[r];
      for (auto &b : out.R[r].bytes) if (b.cell >= 0) { auto it = remap.find(b.cell); if (it == remap.end()) { out.cells.push_back(s2.cells[b.cell]); it = remap.emplace(b.cell, (int)out.cells.size() - 1).first; } b.cell = it->second; }
      continue;
    }
    Region &A = s1.R[r], &B = s2.R[r];
    int64_t n = A.size;
    std::vector<uint8_t> done((size_t)n, 0);
    for (int64_t o = 0; o < n; o++) {
      if (done[o]) continue;
      ByteRef ia = A.bytes[o], ib = B.bytes[o];
      bool same = false;
      if (ia.cell < 0 && ib.cell < 0) same = true;
      else if (ia.cell >= 0 && ib.cell >= 0) { const Cell &ca = s1.cells[ia.cell], &cb = s2.cells[ib.cell]; same = ia.idx == ib.idx && ca.width == cb.width && ca.v == cb.v; }
      if (same) { if (B.written[o]) out.R[r].written[o] = 1; continue; }
      int64_t start = o, endo = o + 1;
      if (ia.cell >= 0) { start = std::min(start, o - ia.idx); endo = std::max(endo, o - ia.idx + s1.cells[ia.cell].width); }
      if (ib.cell >= 0) { start = std::min(start, o - ib.idx); endo = std::max(endo, o - ib.idx + s2.cells[ib.cell].width); }
      if (A.declared) { int e = A.esz; start = start / e * e; endo = (endo + e - 1) / e * e; }
      if (endo > n) endo = n; if (start < 0) start = 0;
      int w = (int)(endo - start);
      AV va = peekIn(s1, (int)r, start, w), vb = peekIn(s2, (int)r, start, w);
      AV m = select(c, va, vb); m.bytes = w;
      int src = ia.cell >= 0 ? s1.cells[ia.cell].src : (ib.cell >= 0 ? s2.cells[ib.cell].src : -1);
      out.cells.push_back({m, w, src}); int cid = (int)out.cells.size() - 1;
      for (int i = 0; i < w; i++) { out.R[r].bytes[start + i] = {cid, i}; done[start + i] = 1; if (A.written[start + i] || B.written[start + i]) out.R[r].written[start + i] = 1; }
    }
  }
  S = std::move(out);
}

// ================================================================ the scheduler
namespace {
struct FnInfo { std::unordered_map<const BasicBlock *, int> rpo; };
std::map<const Function *, std::shared_ptr<FnInfo>> fnInfo;
std::shared_ptr<FnInfo> infoOf(Function &Fn) {
  auto it = fnInfo.find(&Fn);
  if (it != fnInfo.end()) return it->second;
  auto info = std::make_shared<FnInfo>();
  DominatorTree DT(Fn); LoopInfo LI(DT);
  std::vector<BasicBlock *> order; std::set<BasicBlock *> seen;
  // iterative DFS; successors that leave the current loop are visited first so that they
  // come later in reverse post-order than the loop body
  struct Fr { BasicBlock *b; std::vector<BasicBlock *> succ; size_t i; };
  std::vector<Fr> st;
  auto push = [&](BasicBlock *b) {
    seen.insert(b); Fr f{b, {}, 0}; Loop *L = LI.getLoopFor(b);
    std::vector<BasicBlock *> in, outv;
    for (BasicBlock *s : successors(b)) { if (L && !L->contains(s)) outv.push_back(s); else in.push_back(s); }
    f.succ = outv; f.succ.insert(f.succ.end(), in.begin(), in.end());
    st.push_back(f);
  };
  push(&Fn.getEntryBlock());
  while (!st.empty()) {
    Fr &f = st.back();
    if (f.i < f.succ.size()) { BasicBlock *s = f.succ[f.i++]; if (!seen.count(s)) push(s); }
    else { order.push_back(f.b); st.pop_back(); }
  }
  int n = (int)order.size();
  for (int i = 0; i < n; i++) info->rpo[order[i]] = n - 1 - i;
  fnInfo[&Fn] = info;
  return info;
}
} // namespace

Interp::Result Interp::run(Function &Fn, const std::vector<VV> &args) {
  Result res;
  if (depth > 200) { err("call depth"); return res; }
  depth++;
  Module *savedM = M; const DataLayout *savedDL = DL; M = Fn.getParent(); DL = &M->getDataLayout();
  auto info = infoOf(Fn);
  size_t firstLocalRegion = S.R.size();
  struct Act { BasicBlock *bb; BasicBlock *pred; Guard guard; State st; Frame fr; };
  struct Rt { Guard guard; VV val; State st; };
  std::multimap<int, Act> pq; std::vector<Rt> rets;
  {
    Frame F0; unsigned i = 0;
    for (auto &A : Fn.args()) { if (i < args.size()) F0.env[&A] = args[i]; i++; }
    pq.emplace(0, Act{&Fn.getEntryBlock(), nullptr, Guard::True(), std::move(S), std::move(F0)});
  }
  auto evalPhis = [&](BasicBlock *BB, BasicBlock *prev, Frame &F) {
    std::vector<std::pair<const Value *, VV>> ph;
    for (auto &I : *BB) { auto *P = dyn_cast<PHINode>(&I); if (!P) break; ph.push_back({P, get(F, P->getIncomingValueForBlock(prev))}); }
    for (auto &kv : ph) F.env[kv.first] = kv.second;
  };
  bool broken = false;
  while (!pq.empty() && !broken) {
    int key = pq.begin()->first;
    std::vector<Act> as;
    while (!pq.empty() && pq.begin()->first == key) { as.push_back(std::move(pq.begin()->second)); pq.erase(pq.begin()); }
    Act cur; bool phisDone = false;
    if (as.size() == 1) cur = std::move(as[0]);
    else { // gated merge of all activations of this block
      std::vector<PHINode *> phis; for (auto &I : *as[0].bb) { if (auto *P = dyn_cast<PHINode>(&I)) phis.push_back(P); else break; }
      std::vector<std::vector<VV>> phv(as.size());
      for (size_t k = 0; k < as.size(); k++) for (auto *P : phis) phv[k].push_back(get(as[k].fr, P->getIncomingValueForBlock(as[k].pred)));
      std::vector<Guard> gs; for (auto &a : as) gs.push_back(a.guard);
      Cube common = gCommon(gs);
      Act acc = std::move(as.back()); std::vector<VV> accPh = phv.back(); Guard accGuard = acc.guard;
      for (int k = (int)as.size() - 2; k >= 0; k--) {
        Act &a = as[k]; AV c = avOfTerm(gTerm(a.guard, common));
        mergeStates(c, a.st, acc.st); acc.st = std::move(S);
        for (size_t p = 0; p < phis.size(); p++) { VV r; for (size_t i = 0; i < accPh[p].size(); i++) r.push_back(select(c, phv[k][p][i], accPh[p][i])); accPh[p] = r; }
        for (auto &kv : a.fr.env) {
          auto it = acc.fr.env.find(kv.first);
          if (it == acc.fr.env.end()) acc.fr.env[kv.first] = kv.second;
          else if (!(it->second.size() == kv.second.size() && std::equal(it->second.begin(), it->second.end(), kv.second.begin()))) { VV r; for (size_t i = 0; i < kv.second.size() && i < it->second.size(); i++) r.push_back(select(c, kv.second[i], it->second[i])); it->second = r; }
        }
        accGuard = gOr(a.guard, accGuard);
      }
      cur = std::move(acc); cur.guard = accGuard; cur.bb = as[0].bb;
      for (size_t p = 0; p < phis.size(); p++) cur.fr.env[phis[p]] = accPh[p];
      phisDone = true;
    }
    S = std::move(cur.st); Frame &F = cur.fr; BasicBlock *BB = cur.bb, *prev = cur.pred; bool first = true;
    while (BB) {
      if (!(first && phisDone) && prev) evalPhis(BB, prev, F);
      first = false;
      BasicBlock *next = nullptr; bool stopHere = false;
      for (auto &I : *BB) {
        if (isa<PHINode>(I)) continue;
        if (++steps > maxSteps) { err("step limit"); broken = true; stopHere = true; break; }
        if ((steps & 0xFFFF) == 0 && std::chrono::steady_clock::now() > g_deadline) { err("time limit during interpretation"); broken = true; stopHere = true; break; }
        if (monitor) touch(I);
        if (auto *Br = dyn_cast<BranchInst>(&I)) {
          if (Br->isUnconditional()) { next = Br->getSuccessor(0); break; }
          AV c = get(F, Br->getCondition())[0];
          if (c.k == AV::INT) { next = Br->getSuccessor((c.i & 1) ? 0 : 1); break; }
          if (c.k != AV::T) { err(c.k == AV::UNDEF ? "branch on undef" : "branch on unknown (TOP) condition"); broken = true; stopHere = true; break; }
          symbolicBranches++;
          auto l = litOf(c);
          Guard g1 = gAndLit(cur.guard, l.first, l.second), g0 = gAndLit(cur.guard, l.first, !l.second);
          if (g0.isFalse()) { next = Br->getSuccessor(0); break; }
          if (g1.isFalse()) { next = Br->getSuccessor(1); break; }
          pq.emplace(info->rpo[Br->getSuccessor(0)], Act{Br->getSuccessor(0), BB, g1, S, F});
          pq.emplace(info->rpo[Br->getSuccessor(1)], Act{Br->getSuccessor(1), BB, g0, std::move(S), std::move(F)});
          stopHere = true; break;
        }
        if (auto *SW = dyn_cast<SwitchInst>(&I)) {
          AV c = get(F, SW->getCondition())[0];
          if (c.k != AV::INT) { err("switch on data"); broken = true; stopHere = true; break; }
          next = SW->getDefaultDest();
          int bits = SW->getCondition()->getType()->getIntegerBitWidth();
          for (auto &cs : SW->cases()) if (sextBits(cs.getCaseValue()->getZExtValue(), bits) == c.i) next = cs.getCaseSuccessor();
          break;
        }
        if (auto *RI = dyn_cast<ReturnInst>(&I)) {
          VV v; if (RI->getReturnValue()) v = get(F, RI->getReturnValue());
          rets.push_back({cur.guard, v, std::move(S)}); stopHere = true; break;
        }
        if (isa<UnreachableInst>(I)) { abnormalExit(cur.guard, "unreachable", I); stopHere = true; break; }
        if (isa<ResumeInst>(I)) { abnormalExit(cur.guard, "resume", I); stopHere = true; break; }
        if (auto *IV = dyn_cast<InvokeInst>(&I)) {
          if (!call(Fn, F, *IV, cur.guard)) { stopHere = true; break; }
          next = IV->getNormalDest(); break;
        }
        if (!step(Fn, F, I, cur.guard)) { stopHere = true; break; }
      }
      if (stopHere) break;
      if (!next) { err("block without successor"); break; }
      int rn = info->rpo[next], rb = info->rpo[BB];
      if (!pq.empty() && !next->hasNPredecessors(1) && rn >= pq.begin()->first && rn > rb) { pq.emplace(rn, Act{next, BB, cur.guard, std::move(S), std::move(F)}); break; }
      prev = BB; BB = next;
    }
  }
  if (rets.empty()) { S = State(); res.normal = Guard::False(); }
  else {
    std::vector<Guard> gs; for (auto &r : rets) gs.push_back(r.guard);
    Cube common = gCommon(gs);
    Rt acc = std::move(rets.back()); Guard g = acc.guard;
    for (int k = (int)rets.size() - 2; k >= 0; k--) {
      Rt &a = rets[k]; AV c = avOfTerm(gTerm(a.guard, common)); VV r;
      for (size_t i = 0; i < std::max(a.val.size(), acc.val.size()); i++) { AV x = i < a.val.size() ? a.val[i] : AV::Undef(), y = i < acc.val.size() ? acc.val[i] : AV::Undef(); r.push_back(select(c, x, y)); }
      mergeStates(c, a.st, acc.st); acc.st = std::move(S); acc.val = r; g = gOr(a.guard, g);
    }
    S = std::move(acc.st); res.val = acc.val; res.normal = g;
  }
  // regions created by this activation's allocas are dead now
  if (depth > 1) for (size_t r = firstLocalRegion; r < S.R.size(); r++) if (!S.R[r].declared && S.R[r].name[0] == '%') { S.R[r].bytes.clear(); S.R[r].written.clear(); S.R[r].size = 0; }
  M = savedM; DL = savedDL;
  depth--;
  return res;
}

// ================================================================ instructions
bool Interp::step(Function &Fn, Frame &F, Instruction &I, Guard &guard) {
  if (auto *AI = dyn_cast<AllocaInst>(&I)) {
    Region G; G.name = "%" + Fn.getName().str().substr(0, 24) + "." + std::to_string(S.R.size());
    G.size = DL->getTypeAllocSize(AI->getAllocatedType());
    if (auto *C = dyn_cast<ConstantInt>(AI->getArraySize())) G.size *= C->getZExtValue(); else { err("dynamic alloca"); G.size = 0; }
    G.esz = 1; G.role = Region::LOCAL; G.align = (int)AI->getAlign().value();
    F.env[&I] = VV{AV::Ptr(addRegion(G), 0)};
    return true;
  }
  if (auto *GEP = dyn_cast<GetElementPtrInst>(&I)) {
    VV basev = get(F, GEP->getPointerOperand()); unsigned n = leafCount(GEP->getType()); VV out;
    for (unsigned l = 0; l < n; l++) {
      AV base = basev.size() == 1 ? basev[0] : basev[l]; bool baseOk = base.k == AV::PTR || isPtrSel(base);
      struct Step { AV idx; bool isStruct; StructType *st; int64_t esz; }; std::vector<Step> steps; bool symbolic = false;
      for (auto GTI = gep_type_begin(GEP), E = gep_type_end(GEP); GTI != E; ++GTI) {
        VV iv = get(F, GTI.getOperand()); AV idx = iv.size() == 1 ? iv[0] : iv[l];
        StructType *ST = GTI.getStructTypeOrNull(); steps.push_back({idx, ST != nullptr, ST, ST ? 0 : (int64_t)DL->getTypeAllocSize(GTI.getIndexedType())});
        if (idx.k != AV::INT) symbolic = true;
      }
      AV res = AV::Top(8);
      if (baseOk) {
        int budget = 4096; std::map<int, bool> assume;
        std::function<AV(size_t, int64_t)> go = [&](size_t i, int64_t off) -> AV {
          if (i == steps.size()) return ptrAdd(base, off);
          const Step &st = steps[i];
          auto adv = [&](int64_t v) -> AV { return go(i + 1, off + (st.isStruct ? (int64_t)DL->getStructLayout(st.st)->getElementOffset(v) : v * st.esz)); };
          if (st.idx.k == AV::INT) return adv(st.idx.i);
          if (st.isStruct) return AV::Top(8);
          return liftIndex(st.idx, adv, budget, &assume);
        };
        res = go(0, 0);
      }
      if (res.k == AV::TOP) {
        if (baseOk) { if (getenv("IRFLOW_DEBUG")) { std::string str; raw_string_ostream os(str); I.print(os); fprintf(stderr, "GEP: %s\n", str.c_str()); for (auto &st : steps) fprintf(stderr, "   idx kind=%d term=%s\n", (int)st.idx.k, st.idx.k == AV::T ? TT.str(st.idx.t).c_str() : ""); } err("data-dependent address (GEP index is not a constant or a finite choice of constants)"); }
        else err("GEP on non-pointer");
      } else if (symbolic) symbolicIndexGeps++;
      out.push_back(res);
    }
    F.env[&I] = out; return true;
  }
  if (auto *C = dyn_cast<CastInst>(&I)) {
    VV s = get(F, C->getOperand(0)); Type *ST = C->getSrcTy(), *DT = C->getDestTy();
    if (isa<BitCastInst>(C) || isa<AddrSpaceCastInst>(C)) {
      if (DT->getScalarType()->isPointerTy()) { F.env[&I] = s; return true; }
      int db = sbytes(DT); bool dfp = DT->getScalarType()->isFloatingPointTy(); unsigned n = leafCount(DT);
      bool s1 = ST->getScalarSizeInBits() == 1, d1 = DT->getScalarSizeInBits() == 1;
      if (s1 && d1) { F.env[&I] = s; return true; }
      if (d1) { // iN -> <N x i1>
        VV r; AV v = s[0];
        for (unsigned l = 0; l < n; l++) { if (v.k == AV::INT) r.push_back(AV::Int(((uint64_t)v.i >> l) & 1 ? -1 : 0, 1)); else if (v.k == AV::T) r.push_back(AV::Tm(TT.mk("bit", {v.t}, l, 1), 1)); else r.push_back(AV::Top(1)); }
        F.env[&I] = r; return true;
      }
      if (s1) { // <N x i1> -> iN
        bool allInt = true; for (auto &v : s) if (v.k != AV::INT) allInt = false;
        if (allInt) { uint64_t x = 0; for (size_t l = 0; l < s.size(); l++) if (s[l].i & 1) x |= 1ULL << l; F.env[&I] = VV{AV::Int(sextBits(x, (int)s.size()), db)}; }
        else { std::vector<int> ids; bool top = false; for (auto &v : s) { if (v.k == AV::TOP) top = true; ids.push_back(termOf(v)); } F.env[&I] = VV{top ? AV::Top(db) : AV::Tm(TT.mk("bits", ids, 0, db), db)}; }
        return true;
      }
      std::vector<std::pair<AV, int>> bytes;
      for (auto &v : s) for (int i = 0; i < v.bytes; i++) bytes.push_back({v, i});
      VV r; size_t pos = 0;
      for (unsigned l = 0; l < n; l++) {
        std::vector<std::pair<AV, std::pair<int, int>>> ps; int need = db;
        while (need > 0 && pos < bytes.size()) {
          AV v = bytes[pos].first; int lo = bytes[pos].second; int len = 1;
          while (len < need && pos + len < bytes.size() && bytes[pos + len].first == v && bytes[pos + len].second == lo + len) len++;
          ps.push_back({v, {lo, len}}); pos += len; need -= len;
        }
        r.push_back(assemble(ps, db, dfp));
      }
      F.env[&I] = r; return true;
    }
    VV r; for (auto &v : s) r.push_back(DT->getScalarType()->isIntegerTy() ? simplifyChoice(castv(C, v), DT->getScalarSizeInBits() == 1) : castv(C, v));
    F.env[&I] = r; return true;
  }
  if (auto *L = dyn_cast<LoadInst>(&I)) {
    AV p = get(F, L->getPointerOperand())[0]; Type *T = L->getType(); int al = (int)L->getAlign().value(); int src = monitor ? srcOf(I) : -1;
    std::vector<std::pair<Type *, int64_t>> lay; leafLayout(T, 0, lay);
    VV r;
    if (p.k == AV::T && TT.t[p.t].op == TT.OP_SELECT) { bool first = true; for (auto &lf : lay) { Type *ET = lf.first; int sz = sbytes(ET); if (ET->isIntegerTy(1)) sz = 1; AV v = load(ptrAdd(p, lf.second), sz, ET->isFloatingPointTy(), first ? al : 1, src); if (ET->isIntegerTy(1)) v = v.k == AV::INT ? AV::Int(v.i & 1 ? -1 : 0, 1) : (v.k == AV::T ? AV::Tm(TT.mk(TT.OP_TRUNC1, {v.t}, 0, 1), 1) : v); r.push_back(v); first = false; } F.env[&I] = r; return true; }
    if (p.k != AV::PTR) { err(p.k == AV::TOP || p.k == AV::T ? "load through data-dependent address" : "load via non-pointer"); F.env[&I] = VV(lay.size(), AV::Top(sbytes(T))); return true; }
    // one access record for the whole load (alignment applies to the first byte)
    if (lay.size() > 1) { int64_t total = DL->getTypeStoreSize(T); Region &G = S.R[p.region]; if (p.off < 0 || p.off + total > G.size) { if (monitor) find("oob-load", p.region, p.off, (int)total, al, src, "region size " + std::to_string(G.size)); else err("out-of-region load in an unmonitored stage (" + G.name + ")"); F.env[&I] = VV(lay.size(), AV::Top(sbytes(T))); return true; } }
    bool firstLeaf = true;
    for (auto &lf : lay) {
      Type *ET = lf.first; int sz = sbytes(ET); bool fp = ET->isFloatingPointTy();
      if (ET->isIntegerTy(1)) { AV v = load(AV::Ptr(p.region, p.off + lf.second), 1, false, firstLeaf ? al : 1, src); r.push_back(v.k == AV::INT ? AV::Int(v.i & 1 ? -1 : 0, 1) : (v.k == AV::T ? AV::Tm(TT.mk(TT.OP_TRUNC1, {v.t}, 0, 1), 1) : v)); }
      else {
        AV v = load(AV::Ptr(p.region, p.off + lf.second), sz, fp, firstLeaf ? al : 1, src);
        if (ET->isPointerTy() && v.k != AV::PTR && v.k != AV::UNDEF) { if (v.k == AV::T && TT.t[v.t].op == TT.OP_SELECT) { /* pointer select: resolved when dereferenced */ } else if (!(v.k == AV::INT && v.i == 0)) err("pointer loaded from non-pointer bytes"); else v = AV::Ptr(-1, 0); }
        r.push_back(v);
      }
      firstLeaf = false;
    }
    if (getenv("IRFLOW_DEBUG")) for (auto &v : r) if (v.k == AV::UNDEF) { std::string str; raw_string_ostream os(str); I.print(os); fprintf(stderr, "UNDEF LOAD: %s  [region %s off %ld]\n", str.c_str(), S.R[p.region].name.c_str(), (long)p.off); break; }
    F.env[&I] = r; return true;
  }
  if (auto *St = dyn_cast<StoreInst>(&I)) {
    AV p = get(F, St->getPointerOperand())[0]; VV v = get(F, St->getValueOperand()); Type *T = St->getValueOperand()->getType(); int al = (int)St->getAlign().value(); int src = srcOf(I);
    std::vector<std::pair<Type *, int64_t>> lay; leafLayout(T, 0, lay);
    if (isPtrSel(p)) { for (size_t i = 0; i < lay.size() && i < v.size(); i++) { Type *ET = lay[i].first; int sz = sbytes(ET); if (ET->isIntegerTy(1)) sz = 1; AV x = v[i]; if (ET->isIntegerTy(1) && x.k == AV::INT) x = AV::Int(x.i & 1, 1); store(ptrAdd(p, lay[i].second), x, sz, i == 0 ? al : 1, src); } return true; }
    if (p.k != AV::PTR) { err(p.k == AV::TOP || p.k == AV::T ? "store through data-dependent address" : "store via non-pointer"); return true; }
    if (lay.size() > 1) { int64_t total = DL->getTypeStoreSize(T); Region &G = S.R[p.region]; if (p.off < 0 || p.off + total > G.size) { if (monitor) find("oob-store", p.region, p.off, (int)total, al, src, "region size " + std::to_string(G.size)); else err("out-of-region store in an unmonitored stage (" + G.name + ")"); return true; } }
    for (size_t i = 0; i < lay.size() && i < v.size(); i++) {
      Type *ET = lay[i].first; int sz = sbytes(ET); if (ET->isIntegerTy(1)) sz = 1;
      AV x = v[i]; if (ET->isIntegerTy(1) && x.k == AV::INT) x = AV::Int(x.i & 1, 1);
      store(AV::Ptr(p.region, p.off + lay[i].second), x, sz, i == 0 ? al : 1, src);
    }
    return true;
  }
  if (auto *B = dyn_cast<BinaryOperator>(&I)) {
    if (auto *FPO = dyn_cast<FPMathOperator>(&I)) if (FPO->getFastMathFlags().any()) err("fast-math flag on " + std::string(I.getOpcodeName()));
    VV a = get(F, B->getOperand(0)), b = get(F, B->getOperand(1)); VV r; unsigned bits = B->getType()->getScalarSizeInBits();
    for (unsigned i = 0; i < a.size(); i++) {
      if (B->getOpcode() == Instruction::Sub && (isPtrSel(a[i]) || isPtrSel(b[i])) && (a[i].k == AV::PTR || isPtrSel(a[i])) && (b[i].k == AV::PTR || isPtrSel(b[i]))) { // pointer difference
        int budget = 512; std::map<int, bool> assume; AV bb = b[i];
        AV d = liftPtr(a[i], [&](const AV &pa) { return liftPtr(bb, [&](const AV &pb) { return pa.region == pb.region ? AV::Int(pa.off - pb.off, 8) : AV::Top(8); }, budget, &assume); }, budget, &assume);
        if (d.k != AV::TOP) { r.push_back(d); continue; }
      }
      r.push_back(B->getType()->getScalarType()->isIntegerTy() ? simplifyChoice(binop(B->getOpcode(), a[i], b[i], bits), bits == 1) : binop(B->getOpcode(), a[i], b[i], bits));
    }
    F.env[&I] = r; return true;
  }
  if (auto *U = dyn_cast<UnaryOperator>(&I)) {
    if (auto *FPO = dyn_cast<FPMathOperator>(&I)) if (FPO->getFastMathFlags().any()) err("fast-math flag on fneg");
    VV a = get(F, U->getOperand(0)); VV r;
    for (auto &v : a) { if (v.k == AV::TOP) r.push_back(v); else if (v.k == AV::T && TT.t[v.t].op == TT.OP_CF) r.push_back(cfpAV(-TT.cfval(v.t), v.bytes)); else r.push_back(AV::Tm(TT.mk(TT.OP_FNEG, {termOf(v)}, 0, v.bytes), v.bytes, true)); }
    F.env[&I] = r; return true;
  }
  if (auto *IC = dyn_cast<ICmpInst>(&I)) {
    VV a = get(F, IC->getOperand(0)), b = get(F, IC->getOperand(1)); VV r;
    unsigned bits = IC->getOperand(0)->getType()->getScalarType()->isPointerTy() ? 64 : IC->getOperand(0)->getType()->getScalarSizeInBits();
    for (unsigned i = 0; i < a.size(); i++) r.push_back(simplifyChoice(icmp(IC->getPredicate(), a[i], b[i], bits), true));
    F.env[&I] = r; return true;
  }
  if (auto *FC = dyn_cast<FCmpInst>(&I)) {
    if (FC->getFastMathFlags().any()) err("fast-math flag on fcmp");
    VV a = get(F, FC->getOperand(0)), b = get(F, FC->getOperand(1)); VV r;
    for (unsigned i = 0; i < a.size(); i++) r.push_back(simplifyChoice(fcmp(FC->getPredicate(), a[i], b[i]), true));
    F.env[&I] = r; return true;
  }
  if (auto *SI = dyn_cast<SelectInst>(&I)) {
    VV c = get(F, SI->getCondition()), a = get(F, SI->getTrueValue()), b = get(F, SI->getFalseValue()); VV r;
    for (unsigned i = 0; i < a.size(); i++) r.push_back(select(c.size() == 1 ? c[0] : c[i], a[i], b[i]));
    F.env[&I] = r; return true;
  }
  if (auto *IE = dyn_cast<InsertElementInst>(&I)) {
    VV v = get(F, IE->getOperand(0)); AV e = get(F, IE->getOperand(1))[0]; AV ix = get(F, IE->getOperand(2))[0];
    if (ix.k != AV::INT || ix.i < 0 || ix.i >= (int64_t)v.size()) err("data-dependent insertelement index"); else v[ix.i] = e;
    F.env[&I] = v; return true;
  }
  if (auto *EE = dyn_cast<ExtractElementInst>(&I)) {
    VV v = get(F, EE->getOperand(0)); AV ix = get(F, EE->getOperand(1))[0];
    if (ix.k != AV::INT || ix.i < 0 || ix.i >= (int64_t)v.size()) { err("data-dependent extractelement index"); F.env[&I] = VV{AV::Top(sbytes(EE->getType()))}; }
    else F.env[&I] = VV{v[ix.i]};
    return true;
  }
  if (auto *SV = dyn_cast<ShuffleVectorInst>(&I)) {
    VV a = get(F, SV->getOperand(0)), b = get(F, SV->getOperand(1)); VV r; int eb = sbytes(SV->getType());
    for (int m : SV->getShuffleMask()) { if (m < 0) r.push_back(AV::Undef(eb)); else if ((unsigned)m < a.size()) r.push_back(a[m]); else r.push_back(b[m - a.size()]); }
    F.env[&I] = r; return true;
  }
  if (auto *EV = dyn_cast<ExtractValueInst>(&I)) {
    VV v = get(F, EV->getAggregateOperand()); Type *T = EV->getAggregateOperand()->getType(); unsigned off = 0;
    for (unsigned ix : EV->indices()) {
      if (auto *ST = dyn_cast<StructType>(T)) { for (unsigned k = 0; k < ix; k++) off += leafCount(ST->getElementType(k)); T = ST->getElementType(ix); }
      else if (auto *AT = dyn_cast<ArrayType>(T)) { off += ix * leafCount(AT->getElementType()); T = AT->getElementType(); }
    }
    unsigned n = leafCount(T); VV r;
    for (unsigned k = 0; k < n; k++) r.push_back(off + k < v.size() ? v[off + k] : AV::Undef(0));
    F.env[&I] = r; return true;
  }
  if (auto *IV = dyn_cast<InsertValueInst>(&I)) {
    VV v = get(F, IV->getAggregateOperand()); Type *T = IV->getType(); v.resize(leafCount(T), AV::Undef(0)); unsigned off = 0;
    for (unsigned ix : IV->indices()) {
      if (auto *ST = dyn_cast<StructType>(T)) { for (unsigned k = 0; k < ix; k++) off += leafCount(ST->getElementType(k)); T = ST->getElementType(ix); }
      else if (auto *AT = dyn_cast<ArrayType>(T)) { off += ix * leafCount(AT->getElementType()); T = AT->getElementType(); }
    }
    VV e = get(F, IV->getInsertedValueOperand());
    for (size_t k = 0; k < e.size() && off + k < v.size(); k++) v[off + k] = e[k];
    F.env[&I] = v; return true;
  }
  if (isa<FreezeInst>(I)) { F.env[&I] = get(F, I.getOperand(0)); return true; }
  if (auto *CB = dyn_cast<CallBase>(&I)) return call(Fn, F, *CB, guard);
  if (isa<LandingPadInst>(I)) { err("landing pad reached"); return false; }
  if (isa<FenceInst>(I)) return true;
  err(std::string("instruction ") + I.getOpcodeName());
  if (!I.getType()->isVoidTy()) F.env[&I] = VV(leafCount(I.getType()), AV::Top(sbytes(I.getType())));
  return true;
}

} // namespace irf
