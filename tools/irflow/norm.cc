// irflow: normal forms and concrete evaluation — see norm.h
#include "norm.h"
#include <cmath>
#include <functional>
#include <chrono>

namespace irf {

static __int128 gcd128(__int128 a, __int128 b) { if (a < 0) a = -a; if (b < 0) b = -b; while (b) { __int128 t = a % b; a = b; b = t; } return a; }
Q::Q(__int128 a, __int128 b) { if (b < 0) { a = -a; b = -b; } __int128 g = gcd128(a, b); if (g == 0) g = 1; n = a / g; d = b / g; }
static std::string i128str(__int128 v) { if (v == 0) return "0"; bool neg = v < 0; if (neg) v = -v; std::string s; while (v > 0) { s.push_back('0' + (int)(v % 10)); v /= 10; } if (neg) s.push_back('-'); std::reverse(s.begin(), s.end()); return s; }
std::string polyStr(const Poly &p, size_t lim) {
  std::ostringstream s; size_t n = 0;
  if (p.empty()) return "0";
  for (auto &kv : p) {
    if (n++ >= lim) { s << " + ...(" << p.size() << " terms)"; break; }
    s << (n > 1 ? " + " : "") << i128str(kv.second.n); if (kv.second.d != 1) s << "/" << i128str(kv.second.d);
    for (auto &ve : kv.first) { s << "*" << TT.str(ve.first, 4); if (getenv("IRFLOW_DEBUG")) s << "{" << OPS.name(TT.t[ve.first].op) << ":" << TT.t[ve.first].bytes << "}"; if (ve.second != 1) s << "^" << ve.second; }
  }
  return s.str();
}
std::chrono::steady_clock::time_point g_deadline = std::chrono::steady_clock::time_point::max();
bool g_timedOut = false;
static inline bool pastDeadline() { static long ctr = 0; if ((++ctr & 1023) == 0 && std::chrono::steady_clock::now() > g_deadline) g_timedOut = true; return g_timedOut; }
static Mono mmul(const Mono &a, const Mono &b) {
  Mono r; size_t i = 0, j = 0;
  while (i < a.size() || j < b.size()) {
    if (j >= b.size() || (i < a.size() && a[i].first < b[j].first)) r.push_back(a[i++]);
    else if (i >= a.size() || b[j].first < a[i].first) r.push_back(b[j++]);
    else { int e = a[i].second + b[j].second; if (e) r.push_back({a[i].first, e}); i++; j++; }
  }
  return r;
}
static void padd(Poly &r, const Poly &b, long long sb) {
  for (auto &kv : b) { auto it = r.find(kv.first); if (it == r.end()) r[kv.first] = Q(sb) * kv.second; else { it->second = it->second + Q(sb) * kv.second; if (it->second.zero()) r.erase(it); } }
}
static Poly pmul(const Poly &a, const Poly &b) {
  Poly r;
  for (auto &x : a) { if (pastDeadline()) return r; for (auto &y : b) { Mono m = mmul(x.first, y.first); Q c = x.second * y.second; auto it = r.find(m); if (it == r.end()) r[m] = c; else { it->second = it->second + c; if (it->second.zero()) r.erase(it); } } }
  return r;
}
static Poly pconst(Q c) { Poly p; if (!c.zero()) p[Mono()] = c; return p; }

int Normaliser::polyAtom(const char *kind, const Poly &p, int rep, int bytes) {
  std::string key = kind; key += ":"; key += polyStr(p, 1u << 30);
  auto it = polyAtoms.find(key);
  if (it != polyAtoms.end()) return it->second;
  // the representative argument term keeps the atom evaluable; equal polynomials share one atom
  int t = TT.mk(std::string(kind) == "invpoly" ? "inv" : std::string(kind) == "abspoly" ? "abs" : "sqrt", {rep}, 0, bytes);
  polyAtoms[key] = t; if (std::string(kind) == "invpoly") invKey[t] = p; return t;
}
// A rational identity is decided on its numerator: for an atom v = inv(D), P = sum_k v^k P_k vanishes wherever D != 0
// iff sum_k P_k D^(K-k) does.  Atoms are eliminated newest first (a nested denominator was created before the atom
// whose polynomial contains it), so every step removes one atom and introduces none.
bool Normaliser::zeroModDenominators(Poly p) {
  lastNumeratorAtomFree = 0;
  for (int round = 0; round < 64; round++) {
    if (p.empty()) return true;
    if (capped || pastDeadline()) return false;
    int v = -1; int K = 0;
    for (auto &kv : p) for (auto &ve : kv.first) if (ve.second > 0 && invKey.count(ve.first) && ve.first > v) v = ve.first;
    if (v < 0) { bool atoms = false; for (auto &kv : p) for (auto &ve : kv.first) if (TT.t[ve.first].op != TT.OP_SYM) atoms = true; lastNumeratorAtomFree = atoms ? 0 : 1; return false; }
    for (auto &kv : p) for (auto &ve : kv.first) if (ve.first == v) K = std::max(K, ve.second);
    const Poly D = invKey[v];
    std::vector<Poly> pw(K + 1); pw[0] = pconst(Q(1)); for (int k = 1; k <= K; k++) { pw[k] = pmul(pw[k - 1], D); if (pw[k].size() > cap) { capped = true; return false; } }
    Poly s;
    for (auto &kv : p) {
      Mono m; int k = 0; for (auto &ve : kv.first) { if (ve.first == v) k = ve.second; else m.push_back(ve); }
      if (k < 0) return false;
      Poly one; one[m] = kv.second; padd(s, pmul(one, pw[K - k]), 1);
      if (s.size() > cap) { capped = true; return false; }
    }
    p = s;
  }
  return false;
}
Poly Normaliser::atom(int t) { atoms++; if (C) { int ct = C->canon(t); if (ct != t) { const Term &y = TT.t[ct]; if (y.op == TT.OP_C) { Poly p; if (y.k) p[Mono()] = Q((long long)y.k); return p; } if (y.op == TT.OP_CF || y.op == TT.OP_RATC) return norm(ct, true); /* the canonical form is a constant (e.g. a select whose condition was decided) */ if (y.op == TT.OP_SYM) return norm(ct, TT.ns[y.a[0]].fp); if (y.op == TT.OP_ADD || y.op == TT.OP_SUB || y.op == TT.OP_MUL) return norm(ct, false); /* the canonical form became an integer ring expression: expand it */
  if (y.op == TT.OP_FNEG || y.op == TT.OP_FADD || y.op == TT.OP_FSUB || y.op == TT.OP_FMUL || y.op == TT.OP_FMA || y.op == TT.OP_FMULADD || y.op == TT.OP_FDIV) return norm(ct, true); /* e.g. a sign flip done with 64-bit integer instructions on a pair of floats: canonically fneg(...) */ t = ct; } } Poly p; p[Mono{{t, 1}}] = Q(1); return p; }

static bool isSignMask(const Term &c, int bytes) { return c.op == TT.OP_C && ((bytes == 4 && (int32_t)c.k == INT32_MIN) || (bytes == 8 && c.k == INT64_MIN)); }
static bool dyadic(double d, Q &out) {
  if (d == 0) { out = Q(0); return true; }
  if (!std::isfinite(d)) return false;
  int e; double m = std::frexp(d, &e); // d = m * 2^e, 0.5<=|m|<1
  // scale mantissa to an integer
  long long mi = (long long)std::ldexp(m, 53); int ee = e - 53;
  while (mi % 2 == 0 && mi != 0) { mi /= 2; ee++; }
  if (ee > 60 || ee < -100) return false;
  __int128 num = mi, den = 1;
  if (ee >= 0) num <<= ee; else den <<= -ee;
  out = Q(num, den); return true;
}

Poly Normaliser::norm(int t, bool fp) {
  long long key = (long long)t * 2 + (fp ? 1 : 0);
  auto it = memo.find(key);
  if (it != memo.end()) return it->second;
  if (capped) return Poly();
  if (pastDeadline()) { capped = true; return Poly(); }
  const Term x = TT.t[t]; Poly r; const std::string op = OPS.name(x.op);
  auto A = [&](int i) { return norm(x.a[i], fp); };
  if (x.op == TT.OP_SYM) r[Mono{{t, 1}}] = Q(1);
  else if (x.op == TT.OP_C) {
    if (!fp) r = pconst(Q((long long)x.k));
    else { // integer bytes read as a floating-point value (e.g. a zero-filled cell): the value those bits denote
      double d; bool ok = true; if (x.bytes == 4) { uint32_t u = (uint32_t)x.k; float f; memcpy(&f, &u, 4); d = f; } else if (x.bytes == 8) { uint64_t u = (uint64_t)x.k; memcpy(&d, &u, 8); } else ok = false;
      Q q; if (ok && dyadic(d, q)) r = pconst(q); else r = atom(t); }
  }
  else if (x.op == TT.OP_CF) { Q q; if (dyadic(TT.cfval(t), q)) r = pconst(q); else r = atom(t); }
  else if (x.op == TT.OP_RATC) r = pconst(Q((__int128)x.k, (__int128)x.bytes));
  else if (x.op == TT.OP_CONCAT && x.bytes <= 8) { // a value assembled from constant pieces
    uint64_t bits = 0; int pos = 0; bool allc = true;
    for (int a : x.a) { const Term &y = TT.t[a]; uint64_t b; if (y.op == TT.OP_C) b = (uint64_t)y.k; else if (y.op == TT.OP_CF) { if (y.bytes == 4) { float f = (float)TT.cfval(a); uint32_t u; memcpy(&u, &f, 4); b = u; } else { double d = TT.cfval(a); memcpy(&b, &d, 8); } } else { allc = false; break; }
      if (y.bytes < 8) b &= ((1ULL << (8 * y.bytes)) - 1); bits |= b << (8 * pos); pos += y.bytes; }
    if (!allc) r = atom(t);
    else if (fp) { double d; if (x.bytes == 4) { uint32_t u = (uint32_t)bits; float f; memcpy(&f, &u, 4); d = f; } else memcpy(&d, &bits, 8); Q q; if (dyadic(d, q)) r = pconst(q); else r = atom(t); }
    else { int64_t sv = x.bytes < 8 ? (int64_t)(bits << (64 - 8 * x.bytes)) >> (64 - 8 * x.bytes) : (int64_t)bits; r = pconst(Q((long long)sv)); }
  }
  else if ((x.op == TT.OP_FADD && fp) || (x.op == TT.OP_ADD && !fp)) { r = A(0); padd(r, A(1), 1); }
  else if ((x.op == TT.OP_FSUB && fp) || (x.op == TT.OP_SUB && !fp)) { r = A(0); padd(r, A(1), -1); }
  else if ((x.op == TT.OP_FMUL && fp) || (x.op == TT.OP_MUL && !fp)) r = pmul(A(0), A(1));
  else if (x.op == TT.OP_FNEG && fp) { padd(r, A(0), -1); }
  else if (x.op == TT.OP_XOR && fp && x.a.size() == 2 && (isSignMask(TT.t[x.a[0]], x.bytes) || isSignMask(TT.t[x.a[1]], x.bytes))) { int other = isSignMask(TT.t[x.a[0]], x.bytes) ? x.a[1] : x.a[0]; padd(r, norm(other, true), -1); }
  else if ((x.op == TT.OP_FMA || x.op == TT.OP_FMULADD) && fp) { r = pmul(A(0), A(1)); padd(r, A(2), 1); }
  else if (x.op == TT.OP_SHL && !fp && TT.t[x.a[1]].op == TT.OP_C && TT.t[x.a[1]].k >= 0 && TT.t[x.a[1]].k < 62) { r = pmul(A(0), pconst(Q((long long)1 << TT.t[x.a[1]].k))); }
  else if (x.op == TT.OP_FDIV && fp) {
    Poly nb = A(1);
    if (nb.size() == 1) { Mono inv; for (auto &ve : nb.begin()->first) inv.push_back({ve.first, -ve.second}); Poly ip; Q c = nb.begin()->second; ip[inv] = Q(c.d, c.n); r = pmul(A(0), ip); }
    else { // a / b with a non-monomial divisor: a * Inv(b), the atom keyed by the canonical polynomial of b
      r = pmul(A(0), atom(polyAtom("invpoly", nb, x.a[1], x.bytes)));
    }
  }
  else if (x.op == TT.OP_SQRT && fp) {
    Poly na = A(0); bool ok = na.size() == 1;
    if (ok) {
      Q c = na.begin()->second; if (c.n < 0) ok = false;
      long long rn = (long long)llroundl(sqrtl((long double)c.n)), rd = (long long)llroundl(sqrtl((long double)c.d));
      if ((__int128)rn * rn != c.n || (__int128)rd * rd != c.d) ok = false;
      Mono h;
      for (auto &ve : na.begin()->first) { if (ve.second % 2) ok = false; const Term &vt = TT.t[ve.first]; if (!(vt.op == TT.OP_SYM && TT.ns[vt.a[0]].positive) && (ve.second / 2) % 2) ok = false; h.push_back({ve.first, ve.second / 2}); }
      if (ok) r[h] = Q(rn, rd);
    }
    if (!ok) r = atom(polyAtom("sqrtpoly", na, x.a[0], x.bytes));
  }
  else if (x.op == TT.OP_SELECT) {
    // NaN guards (libstdc++'s complex multiply/divide fallback) are resolved under the stated assumption "no NaN"
    std::function<int(int)> ev = [&](int c) -> int {
      const Term &y = TT.t[c]; const std::string cop = OPS.name(y.op);
      if (cop == "fcmp.uno") return 0; if (cop == "fcmp.ord") return 1;
      if (y.op == TT.OP_C) return (y.k & 1) ? 1 : 0;
      if (y.op == TT.OP_NOT) { int v = ev(y.a[0]); return v < 0 ? -1 : !v; }
      if (y.op == TT.OP_SELECT && y.bytes == 1) { int c0 = ev(y.a[0]); if (c0 >= 0) return ev(y.a[c0 ? 1 : 2]); int p = ev(y.a[1]), q = ev(y.a[2]); return p == q ? p : -1; }
      if (y.op == TT.OP_GAND || (y.op == TT.OP_AND && y.bytes == 1)) { int res = 1; for (int a : y.a) { int v = ev(a); if (v == 0) return 0; if (v < 0) res = -1; } return res; }
      if (y.op == TT.OP_GOR || (y.op == TT.OP_OR && y.bytes == 1)) { int res = 0; for (int a : y.a) { int v = ev(a); if (v == 1) return 1; if (v < 0) res = -1; } return res; }
      return -1; };
    int v = ev(x.a[0]);
    if (v >= 0) { nanGuards++; r = norm(x.a[v ? 1 : 2], fp); } else r = atom(t);
  }
  else if (x.op == TT.OP_FABS && fp) { // |p| keyed by the polynomial of the argument (|p| == |-p|)
    Poly pa = norm(x.a[0], true); Poly key = pa; if (!key.empty() && key.begin()->second.n < 0) { key.clear(); padd(key, pa, -1); }
    bool sq = pa.size() == 1 && pa.begin()->second.n > 0; if (sq) for (auto &ve : pa.begin()->first) if (ve.second % 2) sq = false;
    if (sq) r = pa; else r = atom(polyAtom("abspoly", key, x.a[0], x.bytes)); }
  else if (op == "abs" && !fp) {
    Poly pa = norm(x.a[0], false); bool sq = pa.size() == 1 && pa.begin()->second.n > 0;
    if (sq) for (auto &ve : pa.begin()->first) if (ve.second % 2) sq = false;
    if (sq) r = pa;   // |m| = m for an even monomial with positive coefficient: signed overflow is undefined, so m >= 0
    else if (pa.size() == 1) { // |c * m| = |c| * m when every factor of m is an even power or itself an absolute value
      bool nonneg = true; for (auto &ve : pa.begin()->first) { const Term &vt = TT.t[ve.first]; if (ve.second % 2 && OPS.name(vt.op) != "abs") nonneg = false; }
      if (nonneg) { Q c = pa.begin()->second; if (c.n < 0) c.n = -c.n; r[pa.begin()->first] = c; } else r = atom(t);
    }
    else {
      auto monoNonneg = [&](const Mono &m) { for (auto &ve : m) { const Term &vt = TT.t[ve.first]; if (ve.second % 2 && OPS.name(vt.op) != "abs") return false; } return true; };
      bool allPos = !pa.empty(), allNeg = !pa.empty(); for (auto &kv : pa) { if (!monoNonneg(kv.first)) allPos = allNeg = false; if (kv.second.n < 0) allPos = false; else allNeg = false; }
      if (allPos) r = pa;                                                       // a sum of non-negative terms (no signed overflow)
      else if (allNeg) { padd(r, pa, -1); }
      else { Poly key = pa; if (!key.empty() && key.begin()->second.n < 0) { key.clear(); padd(key, pa, -1); } // |p| == |-p|
        r = atom(polyAtom("abspoly", key, x.a[0], x.bytes)); }
    }
  }
  else if (x.op == TT.OP_PIECE && !fp && x.k == 0) r = normTrunc(x.a[0], x.bytes);
  else if (fp && x.a.size() == 2 && (op == "libm.cabs" || op == "libm.cabsf" || op == "libm.hypot" || op == "libm.hypotf")) { // |re + i im| = sqrt(re^2 + im^2) over the reals
    Poly pa = norm(x.a[0], true), pb = norm(x.a[1], true); Poly sq = pmul(pa, pa); padd(sq, pmul(pb, pb), 1);
    r = atom(polyAtom("sqrtpoly", sq, t, x.bytes)); }
  else if (op == "sitofp" || op == "fpext" || op == "fptrunc" || (op == "uitofp")) { r = norm(x.a[0], op != "sitofp" && op != "uitofp"); if (op == "fptrunc") { r = atom(t); } }
  else if (op == "reduce.add" && !fp) { for (int a : x.a) padd(r, norm(a, false), 1); }
  else if (op == "reduce.mul" && !fp) { r = pconst(Q(1)); for (int a : x.a) r = pmul(r, norm(a, false)); }
  else if (op == "reduce.fadd" && fp) { for (int a : x.a) padd(r, norm(a, true), 1); }
  else if (op == "reduce.fmul" && fp) { r = pconst(Q(1)); for (int a : x.a) r = pmul(r, norm(a, true)); }
  else r = atom(t);
  for (auto &kv : r) { __int128 lim = (__int128)1 << 100; if (kv.second.n > lim || kv.second.n < -lim || kv.second.d > lim) overflow = true; }
  maxsize = std::max(maxsize, r.size());
  if (r.size() > cap || g_timedOut) capped = true;
  memo[key] = r;
  return r;
}
// value of the low `len` bytes of an integer term, as a polynomial over Z: truncation is a
// ring homomorphism Z/2^w -> Z/2^(8 len), so equality of these polynomials implies equality
// of the truncated values.
Poly Normaliser::normTrunc(int t, int len) {
  const Term x = TT.t[t];
  if (x.bytes == len) return norm(t, false);
  if (x.op == TT.OP_CONCAT) { int pos = 0; for (int a : x.a) { int w = TT.t[a].bytes; if (pos == 0 && len <= w) return normTrunc(a, len); pos += w; } }
  if (x.op == TT.OP_PIECE && x.k == 0) return normTrunc(x.a[0], len);
  if ((x.op == TT.OP_ZEXT || x.op == TT.OP_SEXT) && TT.t[x.a[0]].bytes >= len) return normTrunc(x.a[0], len);
  if (x.op == TT.OP_ADD || x.op == TT.OP_SUB) { Poly r = normTrunc(x.a[0], len); padd(r, normTrunc(x.a[1], len), x.op == TT.OP_ADD ? 1 : -1); return r; }
  if (x.op == TT.OP_MUL) return pmul(normTrunc(x.a[0], len), normTrunc(x.a[1], len));
  if (x.op == TT.OP_SHL && TT.t[x.a[1]].op == TT.OP_C && TT.t[x.a[1]].k >= 0 && TT.t[x.a[1]].k < 62) return pmul(normTrunc(x.a[0], len), pconst(Q((long long)1 << TT.t[x.a[1]].k)));
  if (x.op == TT.OP_C) { int64_t v = x.k; if (len < 8) v = (int64_t)((uint64_t)v << (64 - 8 * len)) >> (64 - 8 * len); return pconst(Q((long long)v)); }
  return atom(TT.mk(TT.OP_PIECE, {t}, 0, len));
}
int Normaliser::mulCount(int t, std::unordered_map<int, int> &m) {
  auto it = m.find(t); if (it != m.end()) return it->second;
  const Term &x = TT.t[t]; int c = 0;
  if (x.op == TT.OP_SYM || x.op == TT.OP_PTR) { m[t] = 0; return 0; }
  if (x.op == TT.OP_FMUL || x.op == TT.OP_MUL || x.op == TT.OP_FMA || x.op == TT.OP_FMULADD) {
    auto isConst = [&](int a) { return TT.t[a].op == TT.OP_C || TT.t[a].op == TT.OP_CF; };
    auto isZero = [&](int a) { return (TT.t[a].op == TT.OP_C && TT.t[a].k == 0) || (TT.t[a].op == TT.OP_CF && TT.cfval(a) == 0); };
    c = (isZero(x.a[0]) || isZero(x.a[1]) || (isConst(x.a[0]) && isConst(x.a[1]))) ? 0 : 1; // exact products do not round
  }
  for (int a : x.a) { c += mulCount(a, m); if (c > 100000000) c = 100000000; }
  m[t] = c; return c;
}

// ================================================================ EXACT canonicaliser
extern std::unordered_map<int, uint64_t> *g_symOverride;
static bool isCmpAtomT(int t) { const std::string &o = OPS.name(TT.t[t].op); return o.compare(0, 5, "icmp.") == 0 || o.compare(0, 5, "fcmp.") == 0 || TT.t[t].op == TT.OP_NOT; }
static bool commutative(int op) { return op == TT.OP_ADD || op == TT.OP_MUL || op == TT.OP_AND || op == TT.OP_OR || op == TT.OP_XOR || op == TT.OP_FADD || op == TT.OP_FMUL; }
// sign of a floating-point term when it follows from declared facts: symbols of a region declared positive are finite and > 0,
// constants have their sign, |x| of a non-zero x is > 0, products / quotients / negations combine.  2 = unknown.
static int fpSign(int t, int depth = 0) {
  if (depth > 6) return 2;
  const Term &x = TT.t[t];
  if (x.op == TT.OP_SYM) return (TT.ns[x.a[0]].fp && TT.ns[x.a[0]].positive) ? 1 : 2;
  if (x.op == TT.OP_CF) { double v = TT.cfval(t); if (v != v) return 2; return v > 0 ? 1 : (v < 0 ? -1 : 0); }
  if (x.op == TT.OP_FNEG) { int s = fpSign(x.a[0], depth + 1); return s == 2 ? 2 : -s; }
  if (x.op == TT.OP_FABS) { int s = fpSign(x.a[0], depth + 1); return s == 2 ? 2 : (s == 0 ? 0 : 1); }
  if (x.op == TT.OP_FMUL || x.op == TT.OP_FDIV) { int a = fpSign(x.a[0], depth + 1), b = fpSign(x.a[1], depth + 1); if (a == 2 || b == 2) return 2; if (x.op == TT.OP_FDIV && b == 0) return 2; return a * b; }
  if (x.op == TT.OP_SQRT) { int s = fpSign(x.a[0], depth + 1); return (s == 1 || s == 0) ? s : 2; }
  if (x.op == TT.OP_FADD) { int a = fpSign(x.a[0], depth + 1), b = fpSign(x.a[1], depth + 1); if (a == 2 || b == 2) return 2; if (a == 0) return b; if (b == 0) return a; return a == b ? a : 2; }
  return 2;
}

int Canon::canon(int t) {
  auto it = memo.find(t);
  if (it != memo.end()) return it->second;
  Term x = TT.t[t];
  for (auto &a : x.a) if (x.op != TT.OP_SYM && x.op != TT.OP_PTR) a = canon(a);
  int r = -1;
  const std::string op = OPS.name(x.op);
  if (getenv("IRFLOW_DEBUG2") && x.op == TT.OP_FMUL) fprintf(stderr, "canon fmul: %s | a0op=%s a1op=%s v1=%g\n", TT.str(t).c_str(), OPS.name(TT.t[x.a[0]].op).c_str(), OPS.name(TT.t[x.a[1]].op).c_str(), TT.cfval(x.a[1]));
  if (!x.a.empty() && x.op != TT.OP_SYM && x.op != TT.OP_PTR && x.bytes <= 8 && x.op != TT.OP_CONCAT) { // integer constant folding
    bool allc = true; for (int a : x.a) if (TT.t[a].op != TT.OP_C) allc = false;
    if (op == "uitofp" || op == "sitofp") allc = false; // the result is a floating value: folded by its own rule below
    if (allc) { int tmp = TT.mk(x.op, x.a, x.k, x.bytes); std::unordered_map<int, uint64_t> em; uint64_t v; if (evalBits(tmp, 0, em, v)) { int by = x.bytes; int64_t sv = by < 8 ? (int64_t)(v << (64 - 8 * by)) >> (64 - 8 * by) : (int64_t)v; memo[t] = TT.cint(sv, by); return memo[t]; } }
  }
  auto mk = [&](int o, std::vector<int> a, int64_t k, int by) { if (commutative(o) && a.size() == 2 && a[1] < a[0]) std::swap(a[0], a[1]); if ((o == TT.OP_FMA) && a[1] < a[0]) std::swap(a[0], a[1]); return TT.mk(o, a, k, by); };
  if (x.op == TT.OP_FMULADD) r = canon(mk(TT.OP_FADD, {canon(mk(TT.OP_FMUL, {x.a[0], x.a[1]}, 0, x.bytes)), x.a[2]}, 0, x.bytes));
  else if (x.op == TT.OP_XOR && x.a.size() == 2 && (x.bytes == 4 || x.bytes == 8) && (isSignMask(TT.t[x.a[0]], x.bytes) || isSignMask(TT.t[x.a[1]], x.bytes))) { int other = isSignMask(TT.t[x.a[0]], x.bytes) ? x.a[1] : x.a[0]; r = canon(TT.mk(TT.OP_FNEG, {other}, 0, x.bytes)); }
  else if (x.op == TT.OP_AND && x.a.size() == 2 && (x.bytes == 4 || x.bytes == 8)) {
    auto isAbsMask = [&](const Term &c) { return c.op == TT.OP_C && ((x.bytes == 4 && (int32_t)c.k == INT32_MAX) || (x.bytes == 8 && c.k == INT64_MAX)); };
    if (isAbsMask(TT.t[x.a[0]])) r = TT.mk(TT.OP_FABS, {x.a[1]}, 0, x.bytes); else if (isAbsMask(TT.t[x.a[1]])) r = TT.mk(TT.OP_FABS, {x.a[0]}, 0, x.bytes);
  }
  else if (x.op == TT.OP_FADD && TT.t[x.a[0]].op == TT.OP_CF && TT.t[x.a[0]].k == INT64_MIN) r = x.a[1]; // x + (-0.0) == x for every x
  else if (x.op == TT.OP_FADD && TT.t[x.a[1]].op == TT.OP_CF && TT.t[x.a[1]].k == INT64_MIN) r = x.a[0];
  else if (x.op == TT.OP_FSUB && TT.t[x.a[1]].op == TT.OP_CF && TT.t[x.a[1]].k == 0) r = x.a[0]; // x - (+0.0) == x for every x
  else if (divSelfIsOne && x.op == TT.OP_FDIV && x.a[0] == x.a[1]) r = TT.cfp(1.0, x.bytes);
  else if (x.op == TT.OP_FSUB && TT.t[x.a[0]].op == TT.OP_CF && TT.t[x.a[0]].k == INT64_MIN) r = canon(TT.mk(TT.OP_FNEG, {x.a[1]}, 0, x.bytes));
  else if (x.op == TT.OP_FABS && TT.t[x.a[0]].op == TT.OP_FMUL && TT.t[x.a[0]].a[0] == TT.t[x.a[0]].a[1]) r = x.a[0]; // |x*x| == x*x (LLVM performs the same fold)
  else if (x.op == TT.OP_FABS && (TT.t[x.a[0]].op == TT.OP_FABS || TT.t[x.a[0]].op == TT.OP_SQRT)) r = x.a[0];
  else if (x.op == TT.OP_FABS && fpSign(x.a[0]) == 1) r = x.a[0]; // |x| of a term known to be positive
  else if (op.compare(0, 5, "libm.") == 0 && x.a.size() == 1 && (TT.t[x.a[0]].op == TT.OP_FNEG || TT.t[x.a[0]].op == TT.OP_FABS)) {
    // parity of the elementary functions (the compiler applies the same identities to the scalar reference)
    std::string f = op.substr(5); if (f.size() > 1 && f.back() == 'f' && f != "erf") f.pop_back();
    bool even = f == "cos" || f == "cosh"; bool odd = f == "sin" || f == "tan" || f == "sinh" || f == "tanh" || f == "asin" || f == "atan" || f == "cbrt" || f == "asinh" || f == "atanh" || f == "erf";
    int inner = TT.t[x.a[0]].a[0];
    if (even) r = canon(TT.mk(x.op, {inner}, x.k, x.bytes));
    else if (odd && TT.t[x.a[0]].op == TT.OP_FNEG) r = canon(TT.mk(TT.OP_FNEG, {canon(TT.mk(x.op, {inner}, x.k, x.bytes))}, 0, x.bytes));
  }
  else if (x.op == TT.OP_FNEG && TT.t[x.a[0]].op == TT.OP_FNEG) r = TT.t[x.a[0]].a[0];
  else if (x.op == TT.OP_FNEG && TT.t[x.a[0]].op == TT.OP_CF) r = TT.cfp(-TT.cfval(x.a[0]), x.bytes);
  else if (x.op == TT.OP_ADD && x.a[0] == x.a[1]) r = mk(TT.OP_MUL, {x.a[0], TT.cint(2, x.bytes)}, 0, x.bytes);
  else if ((op == "sdiv" || op == "udiv") && x.a[0] == x.a[1]) r = TT.cint(1, x.bytes); // x/x: division by zero is undefined, so the quotient is 1 wherever it is defined
  else if (x.op == TT.OP_SUB && x.a[0] == x.a[1]) r = TT.cint(0, x.bytes);
  else if (x.op == TT.OP_SUB && TT.t[x.a[0]].op == TT.OP_XOR && TT.t[x.a[1]].op == TT.OP_ASHR && TT.t[TT.t[x.a[1]].a[1]].op == TT.OP_C && TT.t[TT.t[x.a[1]].a[1]].k == x.bytes * 8 - 1 &&
           ((TT.t[x.a[0]].a[0] == x.a[1] && TT.t[x.a[0]].a[1] == TT.t[x.a[1]].a[0]) || (TT.t[x.a[0]].a[1] == x.a[1] && TT.t[x.a[0]].a[0] == TT.t[x.a[1]].a[0])))
    r = TT.mk("abs", {TT.t[x.a[1]].a[0]}, 0, x.bytes);   // (x ^ (x >> 31)) - (x >> 31) == |x|
  else if (x.op == TT.OP_XOR && x.a.size() == 2 && x.bytes >= 2 &&
           ((TT.t[x.a[1]].op == TT.OP_ASHR && TT.t[x.a[1]].a[0] == x.a[0] && TT.t[TT.t[x.a[1]].a[1]].op == TT.OP_C && TT.t[TT.t[x.a[1]].a[1]].k == x.bytes * 8 - 1) ||
            (TT.t[x.a[0]].op == TT.OP_ASHR && TT.t[x.a[0]].a[0] == x.a[1] && TT.t[TT.t[x.a[0]].a[1]].op == TT.OP_C && TT.t[TT.t[x.a[0]].a[1]].k == x.bytes * 8 - 1))) {
    // x ^ (x >> bits-1) == |x| + (x >> bits-1)   (the sign smear s is 0 or -1: x^0 = x, x^-1 = -x-1); lets the polynomial form cancel the smear
    int sm = TT.t[x.a[1]].op == TT.OP_ASHR && TT.t[x.a[1]].a[0] == x.a[0] ? x.a[1] : x.a[0]; int v = sm == x.a[1] ? x.a[0] : x.a[1];
    r = mk(TT.OP_ADD, {TT.mk("abs", {v}, 0, x.bytes), sm}, 0, x.bytes);
  }
  else if (x.op == TT.OP_MUL && ((TT.t[x.a[0]].op == TT.OP_C && TT.t[x.a[0]].k == 0) || (TT.t[x.a[1]].op == TT.OP_C && TT.t[x.a[1]].k == 0))) r = TT.cint(0, x.bytes);
  else if (op == "abs" && TT.t[x.a[0]].op == TT.OP_C) r = TT.cint(TT.t[x.a[0]].k < 0 ? -TT.t[x.a[0]].k : TT.t[x.a[0]].k, x.bytes);
  else if (x.op == TT.OP_MUL && x.bytes == 8 && x.a.size() == 2 && ((TT.t[x.a[0]].op == TT.OP_C && TT.t[x.a[0]].k == 4294967297LL && TT.t[x.a[1]].op == TT.OP_ZEXT && TT.t[x.a[1]].k == 32) || (TT.t[x.a[1]].op == TT.OP_C && TT.t[x.a[1]].k == 4294967297LL && TT.t[x.a[0]].op == TT.OP_ZEXT && TT.t[x.a[0]].k == 32))) {
    int z = TT.t[x.a[0]].op == TT.OP_ZEXT ? x.a[0] : x.a[1]; int v = TT.t[z].a[0]; r = TT.mk(TT.OP_CONCAT, {v, v}, 0, 8); // zext(x) * (2^32+1) splats x into both halves
  }
  else if (x.op == TT.OP_FSUB && TT.t[x.a[0]].op == TT.OP_FNEG && x.a[1] < TT.t[x.a[0]].a[0]) r = TT.mk(TT.OP_FSUB, {TT.mk(TT.OP_FNEG, {x.a[1]}, 0, x.bytes), TT.t[x.a[0]].a[0]}, 0, x.bytes); // (-a)-b == (-b)-a
  else if (x.op == TT.OP_AND && x.bytes == 1 && x.a.size() == 2 && ((TT.t[x.a[0]].op == TT.OP_C && TT.t[x.a[0]].k == 1) || (TT.t[x.a[1]].op == TT.OP_C && TT.t[x.a[1]].k == 1))) {
    // and(1, piece<lo,1>(lshr(y,k))): bit k+8lo of y; the top bit is the sign test
    int o = (TT.t[x.a[0]].op == TT.OP_C && TT.t[x.a[0]].k == 1) ? x.a[1] : x.a[0]; const Term po = TT.t[o];
    if (po.op == TT.OP_PIECE && po.bytes == 1 && TT.t[po.a[0]].op == TT.OP_LSHR && TT.t[TT.t[po.a[0]].a[1]].op == TT.OP_C) {
      const Term sh = TT.t[po.a[0]]; int y = sh.a[0]; int64_t bit = TT.t[sh.a[1]].k + 8 * po.k;
      if (bit == TT.t[y].bytes * 8 - 1) { bool neg = false; const Term vt = TT.t[y]; if (vt.op == TT.OP_XOR && TT.t[vt.a[0]].op == TT.OP_C && TT.t[vt.a[0]].k == -1) { y = vt.a[1]; neg = true; } else if (vt.op == TT.OP_XOR && TT.t[vt.a[1]].op == TT.OP_C && TT.t[vt.a[1]].k == -1) { y = vt.a[0]; neg = true; }
        int lt = TT.mk("icmp.slt", {y, TT.cint(0, TT.t[y].bytes)}, TT.t[y].bytes * 8, 1); r = neg ? TT.mk(TT.OP_NOT, {lt}, 0, 1) : lt; }
    }
  }
  else if (x.op == TT.OP_XOR && x.bytes == 1 && x.a.size() == 2 && TT.t[x.a[0]].op == TT.OP_C && (TT.t[x.a[0]].k & 1) && TT.t[x.a[1]].bytes == 1 && isCmpAtomT(x.a[1])) r = canon(TT.mk(TT.OP_NOT, {x.a[1]}, 0, 1));
  else if (x.op == TT.OP_XOR && x.bytes == 1 && x.a.size() == 2 && TT.t[x.a[1]].op == TT.OP_C && (TT.t[x.a[1]].k & 1) && TT.t[x.a[0]].bytes == 1 && isCmpAtomT(x.a[0])) r = canon(TT.mk(TT.OP_NOT, {x.a[0]}, 0, 1));
  else if (x.op == TT.OP_SUB && TT.t[x.a[1]].op == TT.OP_C) r = mk(TT.OP_ADD, {x.a[0], TT.cint(-TT.t[x.a[1]].k, x.bytes)}, 0, x.bytes);
  else if (x.op == TT.OP_SHL && TT.t[x.a[1]].op == TT.OP_C && TT.t[x.a[1]].k >= 0 && TT.t[x.a[1]].k < 63) { int64_t m = (int64_t)1 << TT.t[x.a[1]].k; if (x.bytes < 8) m = (int64_t)((uint64_t)m << (64 - 8 * x.bytes)) >> (64 - 8 * x.bytes); r = mk(TT.OP_MUL, {x.a[0], TT.cint(m, x.bytes)}, 0, x.bytes); }
  else if (x.op == TT.OP_PIECE) {
    const Term y = TT.t[x.a[0]]; int lo = (int)x.k, len = x.bytes; // copy: TT.t may grow below
    auto pc = [&](int a) { return canon(TT.mk(TT.OP_PIECE, {a}, lo, len)); };
    if (lo == 0 && len == y.bytes) r = x.a[0];
    else if ((y.op == TT.OP_AND || y.op == TT.OP_OR || y.op == TT.OP_XOR) && y.a.size() == 2) r = canon(mk(y.op, {pc(y.a[0]), pc(y.a[1])}, 0, len));
    else if (lo == 0 && (y.op == TT.OP_ADD || y.op == TT.OP_SUB || y.op == TT.OP_MUL)) r = canon(mk(y.op, {pc(y.a[0]), pc(y.a[1])}, 0, len));
    else if ((y.op == TT.OP_ZEXT || y.op == TT.OP_SEXT) && lo + len <= TT.t[y.a[0]].bytes) r = (lo == 0 && len == TT.t[y.a[0]].bytes) ? y.a[0] : pc(y.a[0]);
    else if (y.op == TT.OP_ZEXT && lo >= TT.t[y.a[0]].bytes) r = TT.cint(0, len);
    else if (y.op == TT.OP_SELECT) r = canon(TT.mk(TT.OP_SELECT, {y.a[0], pc(y.a[1]), pc(y.a[2])}, 0, len));
    else if (y.op == TT.OP_C) { uint64_t v = (uint64_t)y.k >> (8 * lo); int64_t sv = len < 8 ? (int64_t)(v << (64 - 8 * len)) >> (64 - 8 * len) : (int64_t)v; r = TT.cint(sv, len); }
    else if (y.op == TT.OP_PIECE) r = canon(TT.mk(TT.OP_PIECE, {y.a[0]}, y.k + lo, len));
    else if (y.op == TT.OP_CONCAT) { int pos = 0; for (int a : y.a) { int w = TT.t[a].bytes; if (lo >= pos && lo + len <= pos + w) { r = (lo == pos && len == w) ? a : canon(TT.mk(TT.OP_PIECE, {a}, lo - pos, len)); break; } pos += w; } }
  }
  else if ((op == "uitofp" || op == "sitofp" || x.op == TT.OP_ZEXT || x.op == TT.OP_SEXT) && x.a.size() == 1 && TT.t[x.a[0]].op == TT.OP_SELECT) {
    // a conversion commutes with a choice: cast(select(c,a,b)) == select(c,cast(a),cast(b))
    const Term y = TT.t[x.a[0]]; r = canon(TT.mk(TT.OP_SELECT, {y.a[0], canon(TT.mk(x.op, {y.a[1]}, x.k, x.bytes)), canon(TT.mk(x.op, {y.a[2]}, x.k, x.bytes))}, 0, x.bytes));
  }
  else if ((op == "uitofp" || op == "sitofp") && x.a.size() == 1 && TT.t[x.a[0]].op == TT.OP_C) { int sb = (int)x.k; int64_t v = TT.t[x.a[0]].k; if (sb > 0 && sb < 64) { uint64_t m = ((uint64_t)1 << sb) - 1; uint64_t u = (uint64_t)v & m; v = op == "uitofp" ? (int64_t)u : ((u >> (sb - 1)) & 1 ? (int64_t)(u | ~m) : (int64_t)u); } r = TT.cfp((double)v, x.bytes); }
  else if ((op == "libm.trunc" || op == "libm.truncf") && x.a.size() == 1 && TT.t[x.a[0]].op == TT.OP_FADD) {
    // trunc(x + copysign(pred(1/2), x)) == round(x) (half away from zero) for every x: the largest value below one half carries
    // exactly the halfway cases over the next integer and no others; the sign copy is or(and(x, signbit), bits(pred(1/2)))
    const Term f = TT.t[x.a[0]]; int by = x.bytes; int64_t predHalf = by == 8 ? 0x3FDFFFFFFFFFFFFFLL : 0x3EFFFFFFLL; int64_t sm = by == 8 ? INT64_MIN : (int64_t)INT32_MIN;
    auto isCopysignPredHalf = [&](int t, int xx) { const Term o = TT.t[t]; if (o.op != TT.OP_OR || o.a.size() != 2) return false;
      for (int k = 0; k < 2; k++) { const Term c = TT.t[o.a[k]], an = TT.t[o.a[1 - k]];
        if (c.op == TT.OP_C && (by == 8 ? c.k == predHalf : (int32_t)c.k == (int32_t)predHalf) && an.op == TT.OP_AND && an.a.size() == 2)
          for (int j = 0; j < 2; j++) { const Term m = TT.t[an.a[j]]; if (m.op == TT.OP_C && (by == 8 ? m.k == sm : (int32_t)m.k == (int32_t)sm) && an.a[1 - j] == xx) return true; } }
      return false; };
    if (isCopysignPredHalf(f.a[1], f.a[0])) r = canon(TT.mk("libm.round", {f.a[0]}, 0, by));
    else if (isCopysignPredHalf(f.a[0], f.a[1])) r = canon(TT.mk("libm.round", {f.a[1]}, 0, by));
  }
  else if (op == "bit" && x.a.size() == 1 && TT.t[x.a[0]].op != TT.OP_SYM) {
    // a single bit of a bit-manipulation expression over ONE small integer input (a mask widened, split or re-packed): decide by its
    // truth table which input bit (or constant) it is
    std::set<int> sy; { std::vector<int> st{x.a[0]}; std::set<int> seen; while (!st.empty()) { int u = st.back(); st.pop_back(); if (!seen.insert(u).second) continue; const Term &y = TT.t[u]; if (y.op == TT.OP_SYM) { sy.insert(u); continue; } if (y.op == TT.OP_PTR) continue; for (int a : y.a) st.push_back(a); } }
    if (sy.size() == 1 && TT.t[*sy.begin()].bytes <= 2 && !TT.ns[TT.t[*sy.begin()].a[0]].fp) {
      int sym = *sy.begin(); int nb = TT.t[sym].bytes * 8; uint64_t N = 1ULL << nb; bool ok = true; std::vector<uint8_t> tt(N);
      std::unordered_map<int, uint64_t> ov; auto *saved = g_symOverride; g_symOverride = &ov;
      for (uint64_t v = 0; v < N && ok; v++) { ov[sym] = v; std::unordered_map<int, uint64_t> em; uint64_t o; if (!evalBits(x.a[0], 0, em, o)) ok = false; else tt[v] = (o >> x.k) & 1; }
      g_symOverride = saved;
      if (ok) {
        bool all0 = true, all1 = true; for (uint64_t v = 0; v < N; v++) { if (tt[v]) all0 = false; else all1 = false; }
        if (all0) r = TT.cint(0, 1); else if (all1) r = TT.cint(1, 1);
        else for (int j = 0; j < nb && r < 0; j++) { bool same = true, inv = true; for (uint64_t v = 0; v < N; v++) { bool bj = (v >> j) & 1; if (tt[v] != bj) same = false; if (tt[v] == bj) inv = false; }
          if (same) r = TT.mk("bit", {sym}, j, 1); else if (inv) r = TT.mk(TT.OP_NOT, {TT.mk("bit", {sym}, j, 1)}, 0, 1); }
      }
    }
  }
  else if (x.op == TT.OP_SELECT && (x.bytes == 4 || x.bytes == 8) && ((TT.t[x.a[1]].op == TT.OP_C) != (TT.t[x.a[2]].op == TT.OP_C))) {
    // a choice between a floating value and an integer-typed constant with the same bits (a zeroed lane): give the constant the floating type
    int ci = TT.t[x.a[1]].op == TT.OP_C ? 1 : 2; int other = x.a[3 - ci]; const Term o = TT.t[other]; const std::string oo = OPS.name(o.op);
    bool ofp = (o.op == TT.OP_SYM && TT.ns[o.a[0]].fp) || o.op == TT.OP_CF || o.op == TT.OP_FADD || o.op == TT.OP_FSUB || o.op == TT.OP_FMUL || o.op == TT.OP_FDIV || o.op == TT.OP_FNEG || o.op == TT.OP_FABS || o.op == TT.OP_SQRT || o.op == TT.OP_FMA || oo.compare(0, 5, "libm.") == 0;
    if (ofp) { int64_t k = TT.t[x.a[ci]].k; double d; if (x.bytes == 4) { uint32_t u = (uint32_t)k; float f; memcpy(&f, &u, 4); d = f; } else memcpy(&d, &k, 8);
      if (!std::isnan(d)) { std::vector<int> as = x.a; as[ci] = TT.cfp(d, x.bytes); r = canon(TT.mk(TT.OP_SELECT, as, 0, x.bytes)); } }
  }
  else if (x.op == TT.OP_SELECT && x.a[1] == x.a[2]) r = x.a[1];
  else if (x.op == TT.OP_SELECT && TT.t[x.a[0]].op == TT.OP_C) r = x.a[(TT.t[x.a[0]].k & 1) ? 1 : 2];
  else if (x.op == TT.OP_SELECT && x.bytes == 1 && TT.t[x.a[1]].op == TT.OP_C && TT.t[x.a[2]].op == TT.OP_C && ((TT.t[x.a[1]].k ^ TT.t[x.a[2]].k) & 1)) r = (TT.t[x.a[1]].k & 1) ? x.a[0] : canon(TT.mk(TT.OP_NOT, {x.a[0]}, 0, 1)); // select(c,true,false) == c
  else if (x.op == TT.OP_SELECT && OPS.name(TT.t[x.a[0]].op) == "icmp.slt" && TT.t[TT.t[x.a[0]].a[1]].op == TT.OP_C && TT.t[TT.t[x.a[0]].a[1]].k == 0 && TT.t[x.a[0]].a[0] == x.a[2] &&
           TT.t[x.a[1]].op == TT.OP_SUB && TT.t[TT.t[x.a[1]].a[0]].op == TT.OP_C && TT.t[TT.t[x.a[1]].a[0]].k == 0 && TT.t[x.a[1]].a[1] == x.a[2]) r = TT.mk("abs", {x.a[2]}, 0, x.bytes);
  else if (x.op == TT.OP_SELECT && TT.t[x.a[0]].op == TT.OP_NOT) r = canon(TT.mk(TT.OP_SELECT, {TT.t[x.a[0]].a[0], x.a[2], x.a[1]}, 0, x.bytes));
  else if (x.op == TT.OP_NOT && TT.t[x.a[0]].op == TT.OP_NOT) r = TT.t[x.a[0]].a[0];
  else if (op == "icmp.eq") { int p = x.a[0], q = x.a[1]; if (q < p) std::swap(p, q); r = TT.mk(TT.OP_NOT, {TT.mk("icmp.ne", {p, q}, x.k, 1)}, 0, 1); }
  else if (x.op == TT.OP_CONCAT) { // concat of consecutive pieces of one term
    int base = -1, next = 0; bool ok = true;
    for (int a : x.a) { const Term &p = TT.t[a]; if (p.op != TT.OP_PIECE) { ok = false; break; } if (base < 0) base = p.a[0]; if (p.a[0] != base || p.k != next) { ok = false; break; } next += p.bytes; }
    if (ok && base >= 0 && TT.t[base].bytes == x.bytes && next == x.bytes) r = base;
    if (r < 0 && x.bytes <= 8 && x.a.size() >= 2) { // concat(s,s,..) with s = ashr(top piece of y, all bits): the sign of y smeared over its whole width == ashr(y, bits-1)
      bool same = true; for (int a : x.a) if (a != x.a[0]) same = false;
      const Term s0 = TT.t[x.a[0]];
      if (same && s0.op == TT.OP_ASHR && TT.t[s0.a[1]].op == TT.OP_C && TT.t[s0.a[1]].k == s0.bytes * 8 - 1 && TT.t[s0.a[0]].op == TT.OP_PIECE) {
        const Term pc = TT.t[s0.a[0]]; int y = pc.a[0];
        if (TT.t[y].bytes == x.bytes && pc.k + pc.bytes == x.bytes) r = canon(TT.mk(TT.OP_ASHR, {y, TT.cint(x.bytes * 8 - 1, x.bytes)}, 0, x.bytes));
      }
    }
  }
  else if (op.compare(0, 5, "fcmp.") == 0 || op.compare(0, 5, "icmp.") == 0) {
    // one canonical atom per comparison up to complement: {oeq, olt, ole, ord} / {ne, slt, ult} and NOT
    std::string p = op.substr(5); bool isI = op[0] == 'i'; int a0 = x.a[0], a1 = x.a[1];
    auto atomT = [&](const std::string &pp, int u, int v, bool sym) { if (sym && v < u) std::swap(u, v); return TT.mk((isI ? "icmp." : "fcmp.") + pp, {u, v}, x.k, 1); };
    auto notT = [&](int u) { return TT.mk(TT.OP_NOT, {u}, 0, 1); };
    if (isI) {
      auto bitTest = [&](int u, int v) -> int { // ne(and(y, 2^k), 0)  ->  bit k of y
        if (!(TT.t[v].op == TT.OP_C && TT.t[v].k == 0)) return -1; const Term ut = TT.t[u]; if (ut.op != TT.OP_AND || ut.a.size() != 2) return -1;
        int y = -1; int64_t c = 0; if (TT.t[ut.a[0]].op == TT.OP_C) { c = TT.t[ut.a[0]].k; y = ut.a[1]; } else if (TT.t[ut.a[1]].op == TT.OP_C) { c = TT.t[ut.a[1]].k; y = ut.a[0]; } else return -1;
        uint64_t uc = (uint64_t)c & (ut.bytes >= 8 ? ~0ULL : ((1ULL << (8 * ut.bytes)) - 1)); if (!uc || (uc & (uc - 1))) return -1; int k = __builtin_ctzll(uc);
        while (TT.t[y].op == TT.OP_ZEXT && k < TT.t[y].k) y = TT.t[y].a[0];
        if (TT.t[y].op == TT.OP_LSHR && TT.t[TT.t[y].a[1]].op == TT.OP_C) { k += (int)TT.t[TT.t[y].a[1]].k; y = TT.t[y].a[0]; while (TT.t[y].op == TT.OP_ZEXT && k < TT.t[y].k) y = TT.t[y].a[0]; }
        return TT.mk("bit", {y}, k, 1); };
      int bt = (p == "ne" || p == "eq") ? (bitTest(a0, a1) >= 0 ? bitTest(a0, a1) : bitTest(a1, a0)) : -1;
      if (bt < 0 && (p == "ne" || p == "eq")) { // a bool cell holds 0 or 1: (m != 0) is its bit 0
        int u = a0, v = a1; if (TT.t[u].op == TT.OP_C) std::swap(u, v);
        if (TT.t[v].op == TT.OP_C && TT.t[v].k == 0 && TT.t[u].op == TT.OP_SYM && TT.ns[TT.t[u].a[0]].isbool) bt = TT.mk("bit", {u}, 0, 1);
      }
      if (bt >= 0) r = p == "ne" ? bt : notT(bt);
      else if (p == "ne") r = atomT("ne", a0, a1, true); else if (p == "eq") r = notT(atomT("ne", a0, a1, true));
      else if (p == "slt" || p == "sgt") { int u = p == "slt" ? a0 : a1, v = p == "slt" ? a1 : a0; // u < v
        if (TT.t[u].op == TT.OP_C && TT.t[v].op != TT.OP_C && TT.t[u].k < INT64_MAX) r = notT(atomT("slt", v, TT.cint(TT.t[u].k + 1, TT.t[u].bytes), false)); else r = atomT("slt", u, v, false); }
      else if (p == "sge" || p == "sle") { int u = p == "sge" ? a0 : a1, v = p == "sge" ? a1 : a0; // !(u < v)
        if (TT.t[v].op != TT.OP_C && TT.t[u].op == TT.OP_C && TT.t[u].k < INT64_MAX) r = atomT("slt", v, TT.cint(TT.t[u].k + 1, TT.t[u].bytes), false); /* C >= v  <=>  v < C+1 */ else r = notT(atomT("slt", u, v, false)); }
      else if (p == "ult") r = atomT("ult", a0, a1, false); else if (p == "ugt") r = atomT("ult", a1, a0, false);
      else if (p == "uge") r = notT(atomT("ult", a0, a1, false)); else if (p == "ule") r = notT(atomT("ult", a1, a0, false));
    } else if (fpSign(a0) != 2 && fpSign(a1) != 2 && (fpSign(a0) != fpSign(a1) || fpSign(a0) == 0)) {
      // both operands have a known sign and the signs order them (finite, not NaN): the comparison is a constant
      int su = fpSign(a0), sv = fpSign(a1); bool lt = su < sv, eq = su == sv, res;
      if (p == "oeq" || p == "ueq") res = eq; else if (p == "one" || p == "une") res = !eq; else if (p == "olt" || p == "ult") res = lt; else if (p == "ole" || p == "ule") res = lt || eq;
      else if (p == "ogt" || p == "ugt") res = !lt && !eq; else if (p == "oge" || p == "uge") res = !lt; else if (p == "ord") res = true; else res = false;
      r = TT.cint(res ? 1 : 0, 1);
    } else {
      if (p == "oeq") r = atomT("oeq", a0, a1, true); else if (p == "une") r = notT(atomT("oeq", a0, a1, true));
      else if (p == "one") r = atomT("one", a0, a1, true); else if (p == "ueq") r = notT(atomT("one", a0, a1, true));
      else if (p == "ord") r = atomT("ord", a0, a1, true); else if (p == "uno") r = notT(atomT("ord", a0, a1, true));
      else if (p == "olt") r = atomT("olt", a0, a1, false); else if (p == "ogt") r = atomT("olt", a1, a0, false);
      else if (p == "ole") r = atomT("ole", a0, a1, false); else if (p == "oge") r = atomT("ole", a1, a0, false);
      else if (p == "ult") r = notT(atomT("ole", a1, a0, false)); else if (p == "ugt") r = notT(atomT("ole", a0, a1, false));
      else if (p == "ule") r = notT(atomT("olt", a1, a0, false)); else if (p == "uge") r = notT(atomT("olt", a0, a1, false));
    }
  }
  else if (x.op == TT.OP_TRUNC1) { int y = x.a[0], k = 0; if (TT.t[y].op == TT.OP_LSHR && TT.t[TT.t[y].a[1]].op == TT.OP_C) { k = (int)TT.t[TT.t[y].a[1]].k; y = TT.t[y].a[0]; } while (TT.t[y].op == TT.OP_ZEXT && k < TT.t[y].k) y = TT.t[y].a[0]; if (TT.t[y].op == TT.OP_SYM || k > 0) r = TT.mk("bit", {y}, k, 1); }
  else if (x.op == TT.OP_ZEXT && x.k == 1 && x.bytes == 1) r = x.a[0];                       // i1 -> i8: same byte
  else if ((x.op == TT.OP_OR || x.op == TT.OP_XOR || x.op == TT.OP_ADD) && x.a.size() == 2 && TT.t[x.a[0]].op == TT.OP_C && TT.t[x.a[0]].k == 0) r = x.a[1];
  else if ((x.op == TT.OP_OR || x.op == TT.OP_XOR || x.op == TT.OP_ADD) && x.a.size() == 2 && TT.t[x.a[1]].op == TT.OP_C && TT.t[x.a[1]].k == 0) r = x.a[0];
  else if (x.op == TT.OP_AND && x.a.size() == 2 && ((TT.t[x.a[0]].op == TT.OP_C && TT.t[x.a[0]].k == 0) || (TT.t[x.a[1]].op == TT.OP_C && TT.t[x.a[1]].k == 0))) r = TT.cint(0, x.bytes);
  else if (x.op == TT.OP_LSHR && TT.t[x.a[1]].op == TT.OP_C && TT.t[x.a[1]].k == x.bytes * 8 - 1) { // sign bit as 0/1
    int v = x.a[0]; bool neg = false; const Term &vt = TT.t[v];
    if (vt.op == TT.OP_XOR && TT.t[vt.a[0]].op == TT.OP_C && TT.t[vt.a[0]].k == -1) { v = vt.a[1]; neg = true; } else if (vt.op == TT.OP_XOR && TT.t[vt.a[1]].op == TT.OP_C && TT.t[vt.a[1]].k == -1) { v = vt.a[0]; neg = true; }
    int lt = TT.mk("icmp.slt", {v, TT.cint(0, x.bytes)}, x.bytes * 8, 1); if (neg) lt = TT.mk(TT.OP_NOT, {lt}, 0, 1);
    r = TT.mk(TT.OP_ZEXT, {lt}, 1, x.bytes);
  }
  // sign manipulations that are exact in IEEE arithmetic
  else if (x.op == TT.OP_FMUL && TT.t[x.a[0]].op == TT.OP_CF && TT.cfval(x.a[0]) == -1.0) r = canon(TT.mk(TT.OP_FNEG, {x.a[1]}, 0, x.bytes));
  else if (x.op == TT.OP_FMUL && TT.t[x.a[1]].op == TT.OP_CF && TT.cfval(x.a[1]) == -1.0) r = canon(TT.mk(TT.OP_FNEG, {x.a[0]}, 0, x.bytes));
  else if (x.op == TT.OP_FMUL && TT.t[x.a[0]].op == TT.OP_FNEG) r = canon(TT.mk(TT.OP_FNEG, {mk(TT.OP_FMUL, {TT.t[x.a[0]].a[0], x.a[1]}, 0, x.bytes)}, 0, x.bytes));
  else if (x.op == TT.OP_FMUL && TT.t[x.a[1]].op == TT.OP_FNEG) r = canon(TT.mk(TT.OP_FNEG, {mk(TT.OP_FMUL, {x.a[0], TT.t[x.a[1]].a[0]}, 0, x.bytes)}, 0, x.bytes));
  else if (x.op == TT.OP_FDIV && TT.t[x.a[0]].op == TT.OP_FNEG) r = canon(TT.mk(TT.OP_FNEG, {TT.mk(TT.OP_FDIV, {TT.t[x.a[0]].a[0], x.a[1]}, 0, x.bytes)}, 0, x.bytes));
  else if (x.op == TT.OP_FDIV && TT.t[x.a[1]].op == TT.OP_FNEG) r = canon(TT.mk(TT.OP_FNEG, {TT.mk(TT.OP_FDIV, {x.a[0], TT.t[x.a[1]].a[0]}, 0, x.bytes)}, 0, x.bytes));
  else if (x.op == TT.OP_FADD && TT.t[x.a[1]].op == TT.OP_FNEG) r = canon(TT.mk(TT.OP_FSUB, {x.a[0], TT.t[x.a[1]].a[0]}, 0, x.bytes));
  else if (x.op == TT.OP_FADD && TT.t[x.a[0]].op == TT.OP_FNEG) r = canon(TT.mk(TT.OP_FSUB, {x.a[1], TT.t[x.a[0]].a[0]}, 0, x.bytes));
  else if (x.op == TT.OP_FSUB && TT.t[x.a[1]].op == TT.OP_FNEG) r = canon(mk(TT.OP_FADD, {x.a[0], TT.t[x.a[1]].a[0]}, 0, x.bytes));
  if (r < 0) r = mk(x.op, x.a, x.k, x.bytes);
  memo[t] = r;
  return r;
}

// ================================================================ concrete evaluation
static uint64_t mix(uint64_t x) { x += 0x9E3779B97F4A7C15ull; x = (x ^ (x >> 30)) * 0xBF58476D1CE4E5B9ull; x = (x ^ (x >> 27)) * 0x94D049BB133111EBull; return x ^ (x >> 31); }
static inline uint64_t maskB(int bytes) { return bytes >= 8 ? ~0ULL : ((1ULL << (8 * bytes)) - 1); }
static inline int64_t sextB(uint64_t x, int bits) { return bits >= 64 ? (int64_t)x : (int64_t)(x << (64 - bits)) >> (64 - bits); }
static double bitsToFp(uint64_t b, int bytes) { if (bytes == 4) { uint32_t u = (uint32_t)b; float f; memcpy(&f, &u, 4); return f; } double d; memcpy(&d, &b, 8); return d; }
static uint64_t fpToBits(double d, int bytes) { if (bytes == 4) { float f = (float)d; uint32_t u; memcpy(&u, &f, 4); return u; } uint64_t u; memcpy(&u, &d, 8); return u; }
uint64_t symBits(int nsi, int64_t cell, int point) {
  const SymNS &ns = TT.ns[nsi];
  uint64_t h = mix(mix(std::hash<std::string>()(ns.name)) ^ mix((uint64_t)cell * 1315423911u + (uint64_t)point * 2654435761u));
  if (ns.isbool) return h & 1;
  if (ns.fp && point >= 8) return symBits(nsi, cell, point - 8);
  if (point == 6 || point == 7) { // every symbol far below / far above any constant seed
    double v = (point == 6 ? -1000.0 : 1000.0) - (double)(h % 13); if (ns.positive) v = std::fabs(v); if (ns.fp) return fpToBits(v, ns.esz); return (uint64_t)(int64_t)v & maskB(ns.esz); }
  if (ns.fp) {
    double v;
    switch (point) {
    case 0: { static const double nice[] = {0.25, 0.5, 0.75, 1, 1.25, 1.5, 2, 2.5, 3, 3.5, 4, 5, 6, 7}; v = nice[h % 14]; if (!ns.positive && ((h >> 8) & 1)) v = -v; break; }
    case 4: v = 1 + (double)(h % 7); break;
    case 5: { static const double sp[] = {0.0, -0.0, 1, -1, 1e30, -1e-30, 2, 0.5, 3, -7}; v = sp[h % 10]; if (ns.positive) v = std::fabs(v) + 1; break; }
    default: { v = ((double)(h >> 11) / (double)(1ULL << 53)) * 5.0 + 0.37; if (!ns.positive && ((h >> 3) & 1)) v = -v; break; }
    }
    return fpToBits(v, ns.esz);
  }
  int bits = ns.esz * 8; uint64_t v;
  if (point >= 8) { // wide integer points (used only for integer comparisons; a point at which any signed operation overflows is discarded by the caller)
    static const int64_t w8[] = {2147483648LL, -2147483649LL, 2147483647LL, -2147483648LL, 4294967301LL, -4294967299LL, 1099511627777LL, -1099511627779LL, 4611686018427387904LL, -4611686018427387905LL, 65536LL, -65537LL, 3, -5};
    static const int64_t w4[] = {32768, -32769, 65539, -65541, 1073741824, -1073741825, 2147483647LL, -2147483648LL, 255, -257, 3, -5};
    static const int64_t w2[] = {128, -129, 255, -256, 16384, -16385, 32767, -32768, 3, -5};
    static const int64_t w1[] = {0, 1, -1, 127, -128, 64, -65, 2, 3, -5};
    int64_t sv = ns.esz >= 8 ? w8[h % 14] : ns.esz == 4 ? w4[h % 12] : ns.esz == 2 ? w2[h % 10] : w1[h % 10];
    if (ns.positive && sv <= 0) sv = sv == INT64_MIN ? 1 : 1 - sv;
    return (uint64_t)sv & maskB(ns.esz);
  }
  // signed overflow is undefined in the reference programs, so integer points stay small: a refutation must be a
  // defined execution of the scalar code (large-value discrepancies are left to the structural comparison)
  switch (point) {
  case 4: v = 1 + h % 7; break;
  case 5: { const int64_t bd[] = {0, -1, 1, 2, -2, 3, -3, 4}; v = (uint64_t)bd[h % 8]; break; }
  default: v = (uint64_t)(int64_t)((int)(h % 17) - 8); break;
  }
  return v & maskB(ns.esz) & (bits >= 64 ? ~0ULL : ((1ULL << bits) - 1));
}
std::string symValueStr(int symTerm, int point) {
  const Term &x = TT.t[symTerm]; const SymNS &ns = TT.ns[x.a[0]]; uint64_t b = symBits(x.a[0], x.k, point); std::ostringstream s;
  s.precision(17);
  if (ns.fp) s << bitsToFp(b, ns.esz); else s << sextB(b, ns.esz * 8);
  return s.str();
}
static bool libm1(const std::string &f, long double x, long double &r) {
  if (f == "sin") r = sinl(x); else if (f == "cos") r = cosl(x); else if (f == "tan") r = tanl(x); else if (f == "exp") r = expl(x); else if (f == "log") r = logl(x);
  else if (f == "asin") r = asinl(x); else if (f == "acos") r = acosl(x); else if (f == "atan") r = atanl(x); else if (f == "sinh") r = sinhl(x); else if (f == "cosh") r = coshl(x); else if (f == "tanh") r = tanhl(x);
  else if (f == "exp2") r = exp2l(x); else if (f == "log2") r = log2l(x); else if (f == "log10") r = log10l(x); else if (f == "cbrt") r = cbrtl(x); else if (f == "ceil") r = ceill(x); else if (f == "floor") r = floorl(x);
  else if (f == "round") r = roundl(x); else if (f == "trunc") r = truncl(x); else if (f == "rint" || f == "nearbyint" || f == "roundeven") r = rintl(x); else if (f == "asinh") r = asinhl(x); else if (f == "acosh") r = acoshl(x); else if (f == "atanh") r = atanhl(x);
  else if (f == "expm1") r = expm1l(x); else if (f == "log1p") r = log1pl(x); else if (f == "erf") r = erfl(x); else if (f == "erfc") r = erfcl(x); else if (f == "tgamma") r = tgammal(x); else if (f == "lgamma") r = lgammal(x);
  else return false;
  return true;
}
static bool libm2(const std::string &f, long double x, long double y, long double &r) {
  if (f == "pow") r = powl(x, y); else if (f == "atan2") r = atan2l(x, y); else if (f == "hypot") r = hypotl(x, y); else if (f == "fmod") r = fmodl(x, y); else if (f == "fmin") r = fminl(x, y); else if (f == "fmax") r = fmaxl(x, y); else if (f == "copysign") r = copysignl(x, y); else if (f == "fdim") r = fdiml(x, y);
  else return false;
  return true;
}
static std::string libmBase(const std::string &op) { std::string f = op.substr(5); if (f.size() > 1 && f.back() == 'f' && f != "erf") { std::string g = f.substr(0, f.size() - 1); long double t; if (libm1(g, 0.5L, t) || libm2(g, 0.5L, 0.5L, t)) return g; } return f; }

std::unordered_map<int, uint64_t> *g_symOverride = nullptr; // explicit values for input symbols (truth-table evaluation of small bit functions)
bool g_evalOverflow = false; // a signed add/sub/mul/abs overflowed at the operation's width while evaluating: the point is not a defined execution of the scalar reference
bool evalBits(int t, int point, std::unordered_map<int, uint64_t> &memo, uint64_t &out) {
  auto it = memo.find(t);
  if (it != memo.end()) { out = it->second; return true; }
  const Term &x = TT.t[t]; const std::string op = OPS.name(x.op); int by = x.bytes; uint64_t m = maskB(by);
  std::vector<uint64_t> v(x.a.size());
  if (x.op == TT.OP_SYM) { if (g_symOverride) { auto ov = g_symOverride->find(t); if (ov != g_symOverride->end()) { out = ov->second & m; memo[t] = out; return true; } } out = symBits(x.a[0], x.k, point); memo[t] = out; return true; }
  if (x.op == TT.OP_C) { out = (uint64_t)x.k & m; memo[t] = out; return true; }
  if (x.op == TT.OP_CF) { out = fpToBits(TT.cfval(t), by); memo[t] = out; return true; }
  if (op == "nanbits") { out = (uint64_t)x.k & m; memo[t] = out; return true; }
  if (x.op == TT.OP_UNDEF || x.op == TT.OP_TOP || x.op == TT.OP_PTR || x.op == TT.OP_RATC) return false;
  if (x.op == TT.OP_SELECT) { // lazy: only the chosen arm is evaluated
    uint64_t c; if (!evalBits(x.a[0], point, memo, c)) return false;
    if (!evalBits(x.a[(c & 1) ? 1 : 2], point, memo, out)) return false; out &= m; memo[t] = out; return true;
  }
  for (size_t i = 0; i < x.a.size(); i++) if (!evalBits(x.a[i], point, memo, v[i])) return false;
  auto argBytes = [&](int i) { return TT.t[x.a[i]].bytes; };
  int bits = by * 8; uint64_t r = 0; bool ok = true;
  auto fa = [&](int i) { return bitsToFp(v[i], argBytes(i)); };
  if (x.op == TT.OP_PIECE) r = (v[0] >> (8 * x.k)) & m;
  else if (x.op == TT.OP_CONCAT) { if (by > 8) return false; int pos = 0; for (size_t i = 0; i < v.size(); i++) { r |= (v[i] & maskB(argBytes(i))) << (8 * pos); pos += argBytes(i); } }
  else if (x.op == TT.OP_NOT) r = (v[0] & 1) ^ 1;
  else if (x.op == TT.OP_GAND) { r = 1; for (auto y : v) r &= (y & 1); }
  else if (x.op == TT.OP_GOR) { r = 0; for (auto y : v) r |= (y & 1); }
  else if (x.op == TT.OP_TRUNC1) r = v[0] & 1;
  else if (op == "bit") r = (v[0] >> x.k) & 1;
  else if (op == "bits") { for (size_t i = 0; i < v.size(); i++) r |= (v[i] & 1) << i; }
  else if (op == "signbit") r = (v[0] >> (argBytes(0) * 8 - 1)) & 1;
  else if (x.op == TT.OP_ADD || x.op == TT.OP_SUB || x.op == TT.OP_MUL) {
    r = x.op == TT.OP_ADD ? v[0] + v[1] : x.op == TT.OP_SUB ? v[0] - v[1] : v[0] * v[1];
    if (by <= 8) { __int128 a = sextB(v[0] & m, bits), b = sextB(v[1] & m, bits); __int128 e = x.op == TT.OP_ADD ? a + b : x.op == TT.OP_SUB ? a - b : a * b; if (e != (__int128)sextB(r & m, bits)) g_evalOverflow = true; }
  }
  else if (x.op == TT.OP_AND) r = v[0] & v[1];
  else if (x.op == TT.OP_OR) r = v[0] | v[1];
  else if (x.op == TT.OP_XOR) r = v[0] ^ v[1];
  else if (x.op == TT.OP_SHL) r = (v[1] & m) >= (uint64_t)bits ? 0 : (v[0] << (v[1] & m));
  else if (x.op == TT.OP_LSHR) r = (v[1] & m) >= (uint64_t)bits ? 0 : ((v[0] & m) >> (v[1] & m));
  else if (x.op == TT.OP_ASHR) { uint64_t s = v[1] & m; if (s >= (uint64_t)bits) s = bits - 1; r = (uint64_t)(sextB(v[0] & m, bits) >> s); }
  else if (op == "udiv" || op == "urem") { uint64_t a = v[0] & m, b = v[1] & m; if (!b) return false; r = op == "udiv" ? a / b : a % b; }
  else if (op == "sdiv" || op == "srem") { int64_t a = sextB(v[0] & m, bits), b = sextB(v[1] & m, bits); if (!b || (a == INT64_MIN && b == -1)) return false; r = (uint64_t)(op == "sdiv" ? a / b : a % b); }
  else if (x.op == TT.OP_FADD || x.op == TT.OP_FSUB || x.op == TT.OP_FMUL || x.op == TT.OP_FDIV) {
    if (by == 4) { volatile float a = (float)fa(0), b = (float)fa(1); volatile float c = x.op == TT.OP_FADD ? a + b : x.op == TT.OP_FSUB ? a - b : x.op == TT.OP_FMUL ? a * b : a / b; r = fpToBits(c, 4); }
    else { volatile double a = fa(0), b = fa(1); volatile double c = x.op == TT.OP_FADD ? a + b : x.op == TT.OP_FSUB ? a - b : x.op == TT.OP_FMUL ? a * b : a / b; r = fpToBits(c, 8); }
  }
  else if (op == "frem") r = fpToBits(by == 4 ? fmodf((float)fa(0), (float)fa(1)) : fmod(fa(0), fa(1)), by);
  else if (x.op == TT.OP_FNEG) r = v[0] ^ (1ULL << (bits - 1));
  else if (x.op == TT.OP_FABS) r = v[0] & ~(1ULL << (bits - 1));
  else if (x.op == TT.OP_FMA) r = by == 4 ? fpToBits(fmaf((float)fa(0), (float)fa(1), (float)fa(2)), 4) : fpToBits(fma(fa(0), fa(1), fa(2)), 8);
  else if (x.op == TT.OP_FMULADD) { if (by == 4) { volatile float p = (float)fa(0) * (float)fa(1); volatile float s = p + (float)fa(2); r = fpToBits(s, 4); } else { volatile double p = fa(0) * fa(1); volatile double s = p + fa(2); r = fpToBits(s, 8); } }
  else if (x.op == TT.OP_SQRT) r = by == 4 ? fpToBits(sqrtf((float)fa(0)), 4) : fpToBits(sqrt(fa(0)), 8);
  else if (op.compare(0, 5, "icmp.") == 0) {
    int cb = (int)x.k; if (cb <= 0 || cb > 64) cb = argBytes(0) * 8; uint64_t cm = cb >= 64 ? ~0ULL : ((1ULL << cb) - 1); uint64_t a = v[0] & cm, b = v[1] & cm; int64_t sa = sextB(a, cb), sb = sextB(b, cb); std::string p = op.substr(5);
    bool c = p == "eq" ? a == b : p == "ne" ? a != b : p == "slt" ? sa < sb : p == "sle" ? sa <= sb : p == "sgt" ? sa > sb : p == "sge" ? sa >= sb : p == "ult" ? a < b : p == "ule" ? a <= b : p == "ugt" ? a > b : a >= b; r = c;
  }
  else if (op.compare(0, 5, "fcmp.") == 0) {
    double a = fa(0), b = fa(1); std::string p = op.substr(5); bool un = std::isnan(a) || std::isnan(b); bool c;
    if (p == "oeq") c = !un && a == b; else if (p == "one") c = !un && a != b; else if (p == "olt") c = !un && a < b; else if (p == "ole") c = !un && a <= b; else if (p == "ogt") c = !un && a > b; else if (p == "oge") c = !un && a >= b;
    else if (p == "ueq") c = un || a == b; else if (p == "une") c = un || a != b; else if (p == "ult") c = un || a < b; else if (p == "ule") c = un || a <= b; else if (p == "ugt") c = un || a > b; else if (p == "uge") c = un || a >= b;
    else if (p == "ord") c = !un; else if (p == "uno") c = un; else return false;
    r = c;
  }
  else if (x.op == TT.OP_ZEXT) { int sb = (int)x.k; r = v[0] & (sb >= 64 ? ~0ULL : ((1ULL << sb) - 1)); }
  else if (x.op == TT.OP_SEXT) { int sb = (int)x.k; r = (uint64_t)sextB(v[0] & (sb >= 64 ? ~0ULL : ((1ULL << sb) - 1)), sb); }
  else if (op == "sitofp") { int sb = (int)x.k; r = fpToBits((double)sextB(v[0] & (sb >= 64 ? ~0ULL : ((1ULL << sb) - 1)), sb), by); if (by == 4) r = fpToBits((float)sextB(v[0] & (sb >= 64 ? ~0ULL : ((1ULL << sb) - 1)), sb), 4); }
  else if (op == "uitofp") { int sb = (int)x.k; uint64_t u = v[0] & (sb >= 64 ? ~0ULL : ((1ULL << sb) - 1)); r = by == 4 ? fpToBits((float)u, 4) : fpToBits((double)u, 8); }
  else if (op == "fptosi") { double d = fa(0); if (!(std::fabs(d) < 9e18)) return false; r = (uint64_t)(int64_t)d; }
  else if (op == "fptoui") { double d = fa(0); if (!(d >= 0 && d < 1.8e19)) return false; r = (uint64_t)d; }
  else if (op == "fpext") r = fpToBits(fa(0), by);
  else if (op == "fptrunc") r = fpToBits((float)fa(0), 4);
  else if (op == "smin" || op == "smax" || op == "umin" || op == "umax") { uint64_t a = v[0] & m, b = v[1] & m; int64_t sa = sextB(a, bits), sb = sextB(b, bits); r = op == "smin" ? (sa <= sb ? a : b) : op == "smax" ? (sa >= sb ? a : b) : op == "umin" ? (a <= b ? a : b) : (a >= b ? a : b); }
  else if (op == "usub.sat") { uint64_t a = v[0] & m, b = v[1] & m; r = a > b ? a - b : 0; }
  else if (op == "uadd.sat") { uint64_t a = v[0] & m, b = v[1] & m; r = (a + b) & m; if (r < a) r = m; }
  else if (op == "ssub.sat" || op == "sadd.sat") { __int128 a = sextB(v[0] & m, bits), b = sextB(v[1] & m, bits), c = op == "sadd.sat" ? a + b : a - b; __int128 hi = ((__int128)1 << (bits - 1)) - 1, lo = -((__int128)1 << (bits - 1)); if (c > hi) c = hi; if (c < lo) c = lo; r = (uint64_t)(int64_t)c; }
  else if (op == "abs") { int64_t a = sextB(v[0] & m, bits); r = a < 0 ? (uint64_t)0 - (uint64_t)a : (uint64_t)a; if (sextB(r & m, bits) < 0) g_evalOverflow = true; }
  else if (op == "x86min") { double a = fa(0), b = fa(1); r = (a < b) ? v[0] : v[1]; }
  else if (op == "x86max") { double a = fa(0), b = fa(1); r = (a > b) ? v[0] : v[1]; }
  else if (op == "minnum") r = fpToBits(fmin(fa(0), fa(1)), by);
  else if (op == "maxnum") r = fpToBits(fmax(fa(0), fa(1)), by);
  else if (op == "copysign") r = fpToBits(copysign(fa(0), fa(1)), by);
  else if (op.compare(0, 7, "reduce.") == 0) {
    std::string o = op.substr(7); size_t s0 = 0;
    if (o == "add" || o == "mul" || o == "and" || o == "or" || o == "xor") { r = o == "mul" ? 1 : o == "and" ? ~0ULL : 0; for (auto y : v) r = o == "add" ? r + y : o == "mul" ? r * y : o == "and" ? (r & y) : o == "or" ? (r | y) : (r ^ y); }
    else if (o == "smin" || o == "smax" || o == "umin" || o == "umax") { r = v[0] & m; for (auto y : v) { uint64_t b = y & m; int64_t sa = sextB(r, bits), sb = sextB(b, bits); r = o == "smin" ? (sa <= sb ? r : b) : o == "smax" ? (sa >= sb ? r : b) : o == "umin" ? (r <= b ? r : b) : (r >= b ? r : b); } }
    else if (o == "fadd" || o == "fmul") { if (by == 4) { volatile float acc = (float)fa(0); for (size_t i = 1; i < v.size(); i++) { volatile float y = (float)fa((int)i); acc = o == "fadd" ? acc + y : acc * y; } r = fpToBits(acc, 4); } else { volatile double acc = fa(0); for (size_t i = 1; i < v.size(); i++) { volatile double y = fa((int)i); acc = o == "fadd" ? acc + y : acc * y; } r = fpToBits(acc, 8); } (void)s0; }
    else if (o == "fmin" || o == "fmax") { double acc = fa(0); for (size_t i = 1; i < v.size(); i++) acc = o == "fmin" ? fmin(acc, fa((int)i)) : fmax(acc, fa((int)i)); r = fpToBits(acc, by); }
    else return false;
  }
  else if (op.compare(0, 5, "libm.") == 0 && v.size() == 1 && (libmBase(op) == "round" || libmBase(op) == "roundeven" || libmBase(op) == "floor" || libmBase(op) == "ceil" || libmBase(op) == "trunc" || libmBase(op) == "rint" || libmBase(op) == "nearbyint")) {
    // the rounding family is exact: evaluate it (this is what separates round-half-away from round-half-even)
    std::string g = libmBase(op); double a = fa(0), q;
    if (g == "round") q = std::round(a); else if (g == "floor") q = std::floor(a); else if (g == "ceil") q = std::ceil(a); else if (g == "trunc") q = std::trunc(a);
    else { q = std::nearbyint(a); } // roundeven / rint / nearbyint under the default rounding mode
    r = by == 4 ? fpToBits((float)q, 4) : fpToBits(q, 8);
  }
  else if (op.compare(0, 5, "libm.") == 0) {
    std::string f = op.substr(5); long double res;
    // evaluate with the C library function of the operand width so that results are the bits the program would see
    if (v.size() == 1) {
      double a = fa(0);
      if (by == 4) { float q; std::string g = libmBase(op); long double tmp; if (!libm1(g, a, tmp)) return false; q = (float)tmp; /* not bit-faithful to libm's float routine */ (void)q; return false; }
      if (!libm1(libmBase(op), a, res)) return false; (void)res; return false; // libm results are compared structurally only
    }
    return false;
  }
  else ok = false;
  if (!ok) return false;
  out = r & m; memo[t] = out; return true;
}

// Real-number evaluation in long double with a running forward error bound (g_realErr[t] bounds |computed - exact| for
// term t): a refutation must not be an artefact of cancellation between huge intermediates, and a comparison whose
// operands are closer than their error bounds cannot steer a select reliably (the point is then not evaluable).
static std::unordered_map<int, long double> g_realErr;
long double realErrOf(int t) { auto it = g_realErr.find(t); return it == g_realErr.end() ? 0.0L : it->second; }
void realErrReset() { g_realErr.clear(); }
bool evalReal(int t, int point, std::unordered_map<int, long double> &memo, long double &out) {
  auto it = memo.find(t);
  if (it != memo.end()) { out = it->second; return true; }
  const Term &x = TT.t[t]; const std::string op = OPS.name(x.op); const long double U = 1.1e-19L;
  if (x.op == TT.OP_SYM) { const SymNS &ns = TT.ns[x.a[0]]; uint64_t b = symBits(x.a[0], x.k, point); out = ns.fp ? (long double)bitsToFp(b, ns.esz) : (long double)sextB(b, ns.esz * 8); if (ns.isbool) out = (long double)(b & 1); memo[t] = out; g_realErr[t] = 0; return true; }
  if (x.op == TT.OP_C) { out = (long double)x.k; memo[t] = out; g_realErr[t] = 0; return true; }
  if (x.op == TT.OP_CF) { out = TT.cfval(t); memo[t] = out; g_realErr[t] = 0; return true; }
  if (x.op == TT.OP_RATC) { out = (long double)x.k / (long double)x.bytes; memo[t] = out; g_realErr[t] = U * fabsl(out); return true; }
  if (x.op == TT.OP_SELECT) { long double c; if (!evalReal(x.a[0], point, memo, c)) return false; int pick = x.a[c != 0 ? 1 : 2]; if (!evalReal(pick, point, memo, out)) return false; memo[t] = out; g_realErr[t] = realErrOf(pick); return true; }
  std::vector<long double> v(x.a.size()), e(x.a.size());
  for (size_t i = 0; i < x.a.size(); i++) { if (!evalReal(x.a[i], point, memo, v[i])) return false; e[i] = realErrOf(x.a[i]); }
  long double r = 0, er = 0;
  auto A = [&](int i) { return fabsl(v[i]); };
  if (x.op == TT.OP_FADD || x.op == TT.OP_ADD) { r = v[0] + v[1]; er = e[0] + e[1]; }
  else if (x.op == TT.OP_FSUB || x.op == TT.OP_SUB) { r = v[0] - v[1]; er = e[0] + e[1]; }
  else if (x.op == TT.OP_FMUL || x.op == TT.OP_MUL) { r = v[0] * v[1]; er = A(0) * e[1] + A(1) * e[0] + e[0] * e[1]; }
  else if (x.op == TT.OP_FDIV) { if (A(1) <= 2 * e[1] || v[1] == 0) return false; r = v[0] / v[1]; er = (e[0] + fabsl(r) * e[1]) / (A(1) - e[1]); }
  else if (op == "inv") { if (A(0) <= 2 * e[0] || v[0] == 0) return false; r = 1 / v[0]; er = fabsl(r) * e[0] / (A(0) - e[0]); }
  else if (x.op == TT.OP_FNEG) { r = -v[0]; er = e[0]; }
  else if (x.op == TT.OP_FABS || op == "abs") { r = fabsl(v[0]); er = e[0]; }
  else if (x.op == TT.OP_FMA || x.op == TT.OP_FMULADD) { r = v[0] * v[1] + v[2]; er = A(0) * e[1] + A(1) * e[0] + e[0] * e[1] + e[2]; }
  else if (x.op == TT.OP_SQRT) { if (v[0] < 0 || v[0] <= 2 * e[0]) { if (v[0] == 0 && e[0] == 0) { r = 0; er = 0; } else return false; } else { r = sqrtl(v[0]); er = e[0] / (2 * sqrtl(v[0] - e[0])); } }
  else if (x.op == TT.OP_SHL) { if (v[1] < 0 || v[1] > 62 || e[1] != 0) return false; r = v[0] * (long double)((long long)1 << (int)v[1]); er = e[0] * (long double)((long long)1 << (int)v[1]); }
  else if (x.op == TT.OP_NOT) r = v[0] != 0 ? 0 : 1;
  else if (x.op == TT.OP_GAND) { r = 1; for (auto y : v) if (y == 0) r = 0; }
  else if (x.op == TT.OP_GOR) { r = 0; for (auto y : v) if (y != 0) r = 1; }
  else if (x.op == TT.OP_TRUNC1) r = v[0] != 0;
  else if (op.compare(0, 5, "fcmp.") == 0 || op.compare(0, 5, "icmp.") == 0) {
    std::string p = op.substr(5); if (p.size() == 3 && (p[0] == 'o' || p[0] == 'u' || p[0] == 's') && op[0] == 'f') p = p.substr(1); else if (op[0] == 'i' && p.size() == 3) p = p.substr(1);
    if (p != "rd" && p != "no" && fabsl(v[0] - v[1]) <= 4 * (e[0] + e[1]) && (e[0] + e[1]) > 0) return false; // the operands cannot be ordered reliably at this point
    if (p == "eq") r = v[0] == v[1]; else if (p == "ne") r = v[0] != v[1]; else if (p == "lt") r = v[0] < v[1]; else if (p == "le") r = v[0] <= v[1]; else if (p == "gt") r = v[0] > v[1]; else if (p == "ge") r = v[0] >= v[1]; else if (p == "rd") r = 1; else if (p == "no") r = 0; else return false;
  }
  else if (op == "sitofp" || op == "uitofp" || op == "fpext" || op == "fptrunc" || x.op == TT.OP_SEXT) { r = v[0]; er = e[0]; }
  else if (x.op == TT.OP_ZEXT) { if (v[0] < 0) return false; r = v[0]; er = e[0]; }
  else if (op == "x86min" || op == "minnum" || op == "smin") { r = std::min(v[0], v[1]); er = std::max(e[0], e[1]); }
  else if (op == "x86max" || op == "maxnum" || op == "smax") { r = std::max(v[0], v[1]); er = std::max(e[0], e[1]); }
  else if (op == "reduce.add" || op == "reduce.fadd") { for (size_t i = 0; i < v.size(); i++) { r += v[i]; er += e[i] + U * fabsl(r); } }
  else if (op == "reduce.mul" || op == "reduce.fmul") { r = 1; for (size_t i = 0; i < v.size(); i++) { er = fabsl(r) * e[i] + A((int)i) * er + er * e[i]; r *= v[i]; er += U * fabsl(r); } }
  else if (op.compare(0, 5, "libm.") == 0) { std::string f = libmBase(op); if (v.size() == 1) { if (!libm1(f, v[0], r)) return false; if (e[0] > 1e-12L * (1 + A(0))) return false; er = 16 * U * fabsl(r) + 1e3L * e[0]; } else if (v.size() == 2) { if (!libm2(f, v[0], v[1], r)) return false; if (e[0] + e[1] > 1e-12L * (1 + A(0) + A(1))) return false; er = 16 * U * fabsl(r) + 1e3L * (e[0] + e[1]); } else return false; }
  else if (x.op == TT.OP_XOR && x.a.size() == 2 && (isSignMask(TT.t[x.a[0]], x.bytes) || isSignMask(TT.t[x.a[1]], x.bytes))) { int o = isSignMask(TT.t[x.a[0]], x.bytes) ? 1 : 0; r = -v[o]; er = e[o]; } // sign flip of a floating-point value done with integer instructions
  else { if (getenv("IRFLOW_DEBUG")) fprintf(stderr, "evalReal: no rule for %s\n", TT.str(t, 5).substr(0, 300).c_str()); return false; }
  if (!std::isfinite((double)r)) return false;
  er += U * fabsl(r);
  out = r; memo[t] = out; g_realErr[t] = er; return true;
}

// ================================================================ comparison
std::set<int> Comparer::symsOf(int t) {
  std::set<int> s, seen; std::vector<int> st{t};
  while (!st.empty()) { int u = st.back(); st.pop_back(); if (!seen.insert(u).second) continue; const Term &x = TT.t[u]; if (x.op == TT.OP_SYM) { s.insert(u); continue; } if (x.op == TT.OP_PTR) continue; for (int a : x.a) st.push_back(a); }
  return s;
}
bool Comparer::refute(int a, int b, bool fp, int bytes, bool exactBits, std::string &point, std::string &va, std::string &vb, bool &evaluable) {
  evaluable = false; bool wide = points > 6;
  std::vector<int> pts; for (int p = 0; p < points; p++) { if (p >= 6 && !wide) break; pts.push_back(p); }
  if (!fp) for (int p = 8; p < 14; p++) pts.push_back(p); // integers: wide values, kept only where no signed operation overflows
  for (int p : pts) {
    if (exactBits || !fp) {
      std::unordered_map<int, uint64_t> m; uint64_t x, y;
      g_evalOverflow = false;
      if (!evalBits(a, p, m, x) || !evalBits(b, p, m, y)) continue;
      if (g_evalOverflow && p >= 8) continue;
      evaluable = true;
      if (x == y) continue;
      if (fp) { double dx = bitsToFp(x, bytes), dy = bitsToFp(y, bytes); if (std::isnan(dx) || std::isnan(dy)) continue; }
      std::ostringstream s; std::set<int> sy = symsOf(a), sb = symsOf(b); sy.insert(sb.begin(), sb.end()); int n = 0;
      for (int t : sy) { if (n++ >= 12) { s << " ..."; break; } s << (n > 1 ? ", " : "") << TT.str(t) << "=" << symValueStr(t, p); }
      point = s.str(); std::ostringstream sa, sbb; sa.precision(17); sbb.precision(17);
      if (fp) { sa << bitsToFp(x, bytes); sbb << bitsToFp(y, bytes); } else { sa << sextB(x, bytes * 8); sbb << sextB(y, bytes * 8); }
      va = sa.str(); vb = sbb.str(); return true;
    } else {
      std::unordered_map<int, long double> m; long double x, y;
      realErrReset();
      if (!evalReal(a, p, m, x) || !evalReal(b, p, m, y)) continue;
      evaluable = true;
      long double scale = std::max<long double>(1.0L, std::max(fabsl(x), fabsl(y)));
      // only a gross difference refutes, and only one that exceeds the accumulated evaluation error by a wide margin
      // (intermediate magnitudes can exceed the result's by many orders)
      if (fabsl(x - y) <= 1e-7L * scale) continue;
      if (fabsl(x - y) <= 1e4L * (realErrOf(a) + realErrOf(b))) continue;
      std::ostringstream s; std::set<int> sy = symsOf(a), sb = symsOf(b); sy.insert(sb.begin(), sb.end()); int n = 0;
      for (int t : sy) { if (n++ >= 12) { s << " ..."; break; } s << (n > 1 ? ", " : "") << TT.str(t) << "=" << symValueStr(t, p); }
      point = s.str(); std::ostringstream sa, sbb; sa.precision(17); sbb.precision(17); sa << (double)x; sbb << (double)y; va = sa.str(); vb = sbb.str(); return true;
    }
  }
  // small integer symbols used as lane masks: the generic points rarely separate two bits of one mask, so every one-hot value, its
  // complement, 0 and all-ones is tried for each such symbol (the other symbols at point 0)
  if (exactBits || !fp) {
    std::set<int> sy = symsOf(a), sb = symsOf(b); sy.insert(sb.begin(), sb.end()); int tried = 0;
    for (int ms : sy) {
      const Term &mt = TT.t[ms]; const SymNS &ns = TT.ns[mt.a[0]];
      if (ns.fp || ns.esz > 2 || tried++ >= 3) continue;
      int bits = ns.esz * 8; std::vector<uint64_t> vals{0, (bits >= 64 ? ~0ULL : ((1ULL << bits) - 1))};
      for (int k = 0; k < bits; k++) { vals.push_back(1ULL << k); vals.push_back(vals[1] & ~(1ULL << k)); }
      for (uint64_t v : vals) {
        std::unordered_map<int, uint64_t> ov{{ms, v}}; auto *saved = g_symOverride; g_symOverride = &ov;
        std::unordered_map<int, uint64_t> m; uint64_t x, y; g_evalOverflow = false;
        bool ok = evalBits(a, 0, m, x) && evalBits(b, 0, m, y);
        g_symOverride = saved;
        if (!ok || g_evalOverflow) continue;
        evaluable = true;
        if (x == y) continue;
        if (fp) { double dx = bitsToFp(x, bytes), dy = bitsToFp(y, bytes); if (std::isnan(dx) || std::isnan(dy)) continue; }
        std::ostringstream s; s << TT.str(ms) << "=" << v << " (other inputs as at point 0)"; point = s.str();
        std::ostringstream sa, sbb; sa.precision(17); sbb.precision(17);
        if (fp) { sa << bitsToFp(x, bytes); sbb << bitsToFp(y, bytes); } else { sa << sextB(x, bytes * 8); sbb << sextB(y, bytes * 8); }
        va = sa.str(); vb = sbb.str(); return true;
      }
    }
  }
  return false;
}

// flatten a nested min or max expression into its member set; kind: +1 max, -1 min, 0 none
static void mmFlatten(Canon &C, int t, int kind, std::set<int> &out, int &seenKind, bool &ok) {
  const Term x = TT.t[t]; const std::string op = OPS.name(x.op);
  int k = 0; int l = -1, r = -1;
  if (op == "x86max" || op == "maxnum" || op == "smax" || op == "umax" || op == "maximum") { k = 1; l = x.a[0]; r = x.a[1]; }
  else if (op == "x86min" || op == "minnum" || op == "smin" || op == "umin" || op == "minimum") { k = -1; l = x.a[0]; r = x.a[1]; }
  else if (op == "reduce.smax" || op == "reduce.umax" || op == "reduce.fmax") k = 2;
  else if (op == "reduce.smin" || op == "reduce.umin" || op == "reduce.fmin") k = -2;
  else if (x.op == TT.OP_SELECT) {
    const Term c = TT.t[x.a[0]]; const std::string cop = OPS.name(c.op);
    if ((cop.compare(0, 5, "fcmp.") == 0 || cop.compare(0, 5, "icmp.") == 0) && c.a.size() == 2) {
      std::string p = cop.substr(5); bool lt = p == "olt" || p == "ole" || p == "ult" || p == "ule" || p == "slt" || p == "sle"; bool gt = p == "ogt" || p == "oge" || p == "ugt" || p == "uge" || p == "sgt" || p == "sge";
      int ca = C.canon(c.a[0]), cb = C.canon(c.a[1]), ta = C.canon(x.a[1]), tb = C.canon(x.a[2]);
      if ((lt || gt) && ca == ta && cb == tb) { k = lt ? -1 : 1; l = x.a[1]; r = x.a[2]; }      // a<b ? a : b  = min
      else if ((lt || gt) && ca == tb && cb == ta) { k = lt ? 1 : -1; l = x.a[1]; r = x.a[2]; } // a<b ? b : a  = max
    }
  }
  if (k == 2 || k == -2) { int kk = k / 2; if (kind != 0 && kk != kind) { out.insert(C.canon(t)); return; } if (seenKind == 0) seenKind = kk; for (int a : x.a) mmFlatten(C, a, kk, out, seenKind, ok); return; }
  if (k != 0 && (kind == 0 || kind == k)) { if (seenKind == 0) seenKind = k; mmFlatten(C, l, k, out, seenKind, ok); mmFlatten(C, r, k, out, seenKind, ok); return; }
  { // the identity of the fold (lowest()/max() of the type) is not a member: max(x, lowest) == x for every finite x
    const Term &y = TT.t[C.canon(t)];
    if (kind != 0 && y.op == TT.OP_CF) { double d = TT.cfval(C.canon(t)); double lim = y.bytes == 4 ? 3.4028234663852886e38 : 1.7976931348623157e308; if ((kind > 0 && (d == -lim || d == -INFINITY)) || (kind < 0 && (d == lim || d == INFINITY))) return; }
    if (kind != 0 && y.op == TT.OP_C) { int bits = y.bytes * 8; int64_t lo = bits >= 64 ? INT64_MIN : -((int64_t)1 << (bits - 1)), hi = bits >= 64 ? INT64_MAX : (((int64_t)1 << (bits - 1)) - 1); if ((kind > 0 && y.k == lo) || (kind < 0 && y.k == hi)) return; }
  }
  out.insert(C.canon(t));
}

// collect comparison atoms (for case splitting): maximal i1-valued comparison subterms
static bool isCmpAtom(const Term &x) { const std::string &o = OPS.name(x.op); return o.compare(0, 5, "icmp.") == 0 || o.compare(0, 5, "fcmp.") == 0 || o == "signbit" || o == "bit" || x.op == TT.OP_TRUNC1; }
static void selectConds(int t, std::set<int> &conds, std::set<int> &seen) {
  if (!seen.insert(t).second) return;
  const Term &x = TT.t[t];
  if (x.op == TT.OP_SYM || x.op == TT.OP_PTR) return;
  if (isCmpAtom(x)) { conds.insert(t); return; }
  for (int a : x.a) selectConds(a, conds, seen);
}
// substitute truth values for the atoms and fold the boolean structure around them
static int resolveSel(int t, const std::map<int, bool> &val, std::unordered_map<int, int> &memo, Canon *CC = nullptr) {
  auto it = memo.find(t); if (it != memo.end()) return it->second;
  Term x = TT.t[t]; int r;
  auto f = val.find(t);
  if (f != val.end()) r = TT.cint(f->second ? 1 : 0, 1);
  else if (x.op == TT.OP_SYM || x.op == TT.OP_PTR || x.a.empty()) r = t;
  else {
    for (auto &a : x.a) a = resolveSel(a, val, memo, CC);
    auto cst = [&](int a, int64_t &v) { const Term &y = TT.t[a]; if (y.op != TT.OP_C) return false; v = y.k; return true; };
    int64_t c0, c1;
    if (x.op == TT.OP_SELECT && cst(x.a[0], c0)) r = x.a[(c0 & 1) ? 1 : 2];
    else if (x.op == TT.OP_SELECT && x.a[1] == x.a[2]) r = x.a[1];
    else if (x.op == TT.OP_NOT && cst(x.a[0], c0)) r = TT.cint((c0 & 1) ? 0 : 1, 1);
    else if ((x.op == TT.OP_ZEXT) && x.k == 1 && cst(x.a[0], c0)) r = TT.cint(c0 & 1, x.bytes);
    else if ((x.op == TT.OP_SEXT) && x.k == 1 && cst(x.a[0], c0)) r = TT.cint((c0 & 1) ? -1 : 0, x.bytes);
    else if (x.op == TT.OP_GAND || x.op == TT.OP_GOR) {
      bool isAnd = x.op == TT.OP_GAND; std::vector<int> rest; bool decided = false;
      for (int a : x.a) { if (cst(a, c0)) { if (((c0 & 1) != 0) != isAnd) decided = true; } else rest.push_back(a); }
      if (decided) r = TT.cint(isAnd ? 0 : 1, 1); else if (rest.empty()) r = TT.cint(isAnd ? 1 : 0, 1); else if (rest.size() == 1) r = rest[0]; else r = TT.mk(x.op, rest, 0, 1);
    }
    else if ((x.op == TT.OP_AND || x.op == TT.OP_OR || x.op == TT.OP_XOR) && x.bytes == 1 && x.a.size() == 2 && (cst(x.a[0], c0) || cst(x.a[1], c1))) {
      bool k0 = cst(x.a[0], c0); int64_t c = k0 ? c0 : (cst(x.a[1], c1), c1); int other = k0 ? x.a[1] : x.a[0]; int64_t oc; bool bothC = cst(other, oc);
      if (bothC) r = TT.cint(x.op == TT.OP_AND ? ((c & oc) & 1) : x.op == TT.OP_OR ? ((c | oc) & 1) : ((c ^ oc) & 1), 1);
      else if (x.op == TT.OP_AND) r = (c & 1) ? other : TT.cint(0, 1);
      else if (x.op == TT.OP_OR) r = (c & 1) ? TT.cint(1, 1) : other;
      else r = (c & 1) ? TT.mk(TT.OP_NOT, {other}, 0, 1) : other;
    }
    else r = TT.mk(x.op, x.a, x.k, x.bytes);
    { // all operands constant: fold by evaluation
      bool allc = !TT.t[r].a.empty() && TT.t[r].op != TT.OP_SYM && TT.t[r].op != TT.OP_PTR; for (int a : TT.t[r].a) if (TT.t[a].op != TT.OP_C) allc = false;
      if (allc && TT.t[r].bytes <= 8) { std::unordered_map<int, uint64_t> em; uint64_t v; if (evalBits(r, 0, em, v)) { int by = TT.t[r].bytes; int64_t sv = by < 8 ? (int64_t)(v << (64 - 8 * by)) >> (64 - 8 * by) : (int64_t)v; r = TT.cint(sv, by); } }
    }
    if (CC && r != t && isCmpAtom(TT.t[r])) { // a rebuilt comparison may coincide with an atom that already has a value
      int cr = CC->canon(r); bool neg = false; if (TT.t[cr].op == TT.OP_NOT) { neg = true; cr = TT.t[cr].a[0]; }
      auto g = val.find(cr); if (g != val.end()) r = TT.cint((g->second != neg) ? 1 : 0, 1);
    }
  }
  memo[t] = r; return r;
}

static bool polyHasAtoms(const Poly &p) { for (auto &kv : p) for (auto &ve : kv.first) if (TT.t[ve.first].op != TT.OP_SYM) return true; return false; }

// Predicates with a tolerance (isequal, issymmetric, isorthogonal ...) compare real-valued expressions; two comparison atoms whose
// operands are the same polynomials over the reals are the same atom, however the sums were associated.
static int unifyCmpAtoms(int t, Normaliser &N, std::map<std::string, int> &reps, std::unordered_map<int, int> &memo) {
  auto it = memo.find(t); if (it != memo.end()) return it->second;
  Term x = TT.t[t]; int r = t;
  if (x.op == TT.OP_SYM || x.op == TT.OP_PTR || x.a.empty()) { memo[t] = t; return t; }
  const std::string op = OPS.name(x.op);
  if (op.compare(0, 5, "fcmp.") == 0 && x.a.size() == 2) {
    Poly pa = N.norm(x.a[0], true), pb = N.norm(x.a[1], true);
    if (!N.capped && !N.overflow) { std::string key = op + "|" + polyStr(pa, 1u << 30) + "|" + polyStr(pb, 1u << 30); auto f = reps.find(key); if (f == reps.end()) { reps[key] = t; r = t; } else r = f->second; memo[t] = r; return r; }
  }
  bool ch = false; for (auto &a : x.a) { int na = unifyCmpAtoms(a, N, reps, memo); if (na != a) { a = na; ch = true; } }
  if (ch) r = TT.mk(x.op, x.a, x.k, x.bytes);
  memo[t] = r; return r;
}

CmpResult Comparer::compare(int a, int b, const std::string &mode, bool fp, int bytes) {
  CmpResult res;
  if (mode == "ALG" && !fp && bytes == 1) { std::map<std::string, int> reps; std::unordered_map<int, int> memo; int ua = unifyCmpAtoms(a, N, reps, memo), ub = unifyCmpAtoms(b, N, reps, memo); return compare(ua, ub, "EXACT", false, 1); }
  if (a == b) { res.how = "identical"; nCanon++; return res; }
  { const Term &ta = TT.t[a]; if (ta.op == TT.OP_UNDEF || ta.op == TT.OP_TOP) { res.v = V_VIOLATION; res.how = "value is undefined/unknown"; res.got = TT.str(a); res.expected = TT.str(b, 3); return res; } }
  if (mode == "EXACTDIV") { Canon CD; CD.divSelfIsOne = true; if (CD.canon(a) == CD.canon(b)) { res.how = "canonical (x/x = 1 on the domain of definition)"; nCanon++; return res; } }
  int ca = C.canon(a), cb = C.canon(b);
  if (ca == cb) { res.how = "canonical"; nCanon++; return res; }
  bool structuralOnly = false;
  if (mode == "MINMAX") {
    std::set<int> sa, sb; int ka = 0, kb = 0; bool ok = true;
    mmFlatten(C, a, 0, sa, ka, ok); mmFlatten(C, b, 0, sb, kb, ok);
    if (sa == sb && (ka == kb || sa.size() == 1)) { res.how = "minmax-set"; nMinmax++; return res; }
    { // members are arithmetic expressions: compare them up to polynomial identity
      std::set<std::string> pa, pb; for (int t : sa) pa.insert(polyStr(N.norm(t, fp), 1u << 30)); for (int t : sb) pb.insert(polyStr(N.norm(t, fp), 1u << 30));
      if (!N.capped && !N.overflow && pa == pb && (ka == kb || pa.size() == 1)) { res.how = "minmax-set (members up to polynomial identity)"; nMinmax++; return res; }
    }
    { // both sides are a min (or max) over independent input symbols and the member sets differ: the functions differ
      // (make the extra member of one side the strict extreme and the other side cannot see it)
      auto allSyms = [&](const std::set<int> &ss) { for (int t : ss) if (TT.t[t].op != TT.OP_SYM) return false; return !ss.empty(); };
      if (ok && ka == kb && ka != 0 && sa != sb && allSyms(sa) && allSyms(sb)) {
        std::ostringstream ea2, eb2; for (int t : sa) ea2 << TT.str(t) << ";"; for (int t : sb) eb2 << TT.str(t) << ";";
        res.v = V_VIOLATION; res.how = "min/max over different sets of independent inputs"; res.got = (ka > 0 ? "max{" : "min{") + ea2.str() + "}"; res.expected = (kb > 0 ? "max{" : "min{") + eb2.str() + "}"; nRefuted++; return res; }
    }
    std::ostringstream ea, eb; ea << (ka > 0 ? "max{" : ka < 0 ? "min{" : "{"); for (int t : sa) ea << TT.str(t, 5) << ";"; ea << "}"; eb << (kb > 0 ? "max{" : kb < 0 ? "min{" : "{"); for (int t : sb) eb << TT.str(t, 5) << ";"; eb << "}";
    res.got = ea.str(); res.expected = eb.str();
  }
  if (mode == "ALG" || (mode == "EXACT" && !fp)) {
    Poly pa = N.norm(a, fp), pb = N.norm(b, fp);
    if (!N.capped && !N.overflow && pa == pb) { res.how = "polynomial"; nPoly++; return res; }
    if (!N.capped && !N.overflow && mode == "ALG" && !N.invKey.empty()) { Poly d = pa; padd(d, pb, -1); if (N.zeroModDenominators(d)) { res.how = "polynomial (denominators cleared)"; nPoly++; return res; }
      if (N.lastNumeratorAtomFree && !N.capped && !N.overflow) { res.v = V_VIOLATION; res.how = "after clearing denominators the numerator is a non-zero atom-free polynomial"; res.got = polyStr(pa); res.expected = polyStr(pb); nRefuted++; return res; } }
    if (N.capped || N.overflow) { res.v = V_UNDECIDED; res.how = "normal form exceeded the size cap"; nUndecided++; return res; }
    if (res.got.empty()) { res.got = polyStr(pa); res.expected = polyStr(pb); }
    if (mode == "ALG" && !polyHasAtoms(pa) && !polyHasAtoms(pb)) structuralOnly = true; // atom-free forms: the mismatch is complete
  }
  // Shannon expansion over comparison atoms, innermost first: under each truth assignment the boolean structure is
  // folded away and the residual terms are compared in the requested mode (atoms are treated as independent, which
  // can only make the test stricter)
  {
    long budget = 300000; int natoms = 0;
    std::map<int, bool> val;
    std::function<bool(int, int, int)> splitEq = [&](int ta, int tb, int depth) -> bool {
      if (--budget < 0) return false;
      Canon C2; int xa = C2.canon(ta), xb = C2.canon(tb);
      if (xa == xb) return true;
      { const Term &ya = TT.t[xa], &yb = TT.t[xb]; if (bytes == 1 && ya.op == TT.OP_C && yb.op == TT.OP_C && ((ya.k ^ yb.k) & 1) == 0) return true; }
      // innermost atom: a comparison none of whose proper subterms is a comparison
      std::set<int> conds, seen; 
      std::function<void(int)> deep = [&](int t) { if (!seen.insert(t).second) return; const Term &x = TT.t[t]; if (x.op == TT.OP_SYM || x.op == TT.OP_PTR) return; if (isCmpAtom(x)) conds.insert(t); for (int a : x.a) deep(a); };
      deep(xa); deep(xb);
      int pick = -1;
      for (int c : conds) { std::set<int> inner, sn; std::function<void(int)> d2 = [&](int t) { if (!sn.insert(t).second) return; const Term &x = TT.t[t]; if (x.op == TT.OP_SYM || x.op == TT.OP_PTR) return; if (t != c && isCmpAtom(x)) inner.insert(t); for (int a : x.a) d2(a); }; d2(c); if (inner.empty()) { pick = c; break; } }
      if (pick < 0 || depth > 48) {
        if (mode == "ALG" || (mode == "EXACT" && !fp)) { Normaliser N2; N2.cap = N.cap; N2.C = &C2; Poly pa = N2.norm(xa, fp), pb = N2.norm(xb, fp); if (!N2.capped && !N2.overflow && pa == pb) return true; if (!N2.capped && !N2.overflow && mode == "ALG" && !N2.invKey.empty()) { Poly d = pa; padd(d, pb, -1); if (N2.zeroModDenominators(d)) return true; } }
        if (mode == "MINMAX") { std::set<int> sa, sb; int ka = 0, kb = 0; bool ok = true; mmFlatten(C2, xa, 0, sa, ka, ok); mmFlatten(C2, xb, 0, sb, kb, ok); if (sa == sb && (ka == kb || sa.size() == 1)) return true; }
        if (getenv("IRFLOW_DEBUG")) { fprintf(stderr, "split leaf mismatch depth %d: %s  VS  %s\n", depth, TT.str(xa).c_str(), TT.str(xb).c_str()); for (auto &kv : val) fprintf(stderr, "   %s = %d\n", TT.str(kv.first).c_str(), (int)kv.second); }
        return false;
      }
      natoms = std::max(natoms, depth + 1);
      for (int v = 1; v >= 0; v--) { val[pick] = v; std::unordered_map<int, int> m1; int ra = resolveSel(xa, val, m1, &C2), rb = resolveSel(xb, val, m1, &C2); bool ok = splitEq(ra, rb, depth + 1); val.erase(pick); if (!ok) return false; }
      return true;
    };
    std::set<int> c0, s0; selectConds(ca, c0, s0); selectConds(cb, c0, s0);
    if (!c0.empty() && splitEq(ca, cb, 0)) { res.how = "case-split over " + std::to_string(natoms) + " comparison atoms"; nSplit++; return res; }
  }
  if (res.got.empty()) { res.got = TT.str(ca); res.expected = TT.str(cb); }
  // refutation at a point: evaluate both extracted terms on concrete inputs
  std::string pt, va, vb; bool evaluable = false;
  bool exactBits = (mode == "EXACT"); int savedPoints = points; if (mode == "MINMAX") points = 8;
  bool refuted = refute(a, b, fp, bytes, exactBits, pt, va, vb, evaluable); points = savedPoints;
  if (refuted) { res.v = V_VIOLATION; res.how = "refuted at a point"; res.point = pt + "  => got " + va + ", expected " + vb; nRefuted++; return res; }
  if (structuralOnly) { res.v = V_VIOLATION; res.how = "atom-free polynomial normal forms differ"; nRefuted++; return res; } // distinct canonical Laurent polynomials over Q are distinct functions: some point separates them
  res.v = V_UNDECIDED; res.how = evaluable ? "normal forms differ but no tested point separates the terms" : "normal forms differ and the terms cannot be evaluated"; nUndecided++;
  return res;
}
CmpResult Comparer::isZero(int a, bool fp) {
  CmpResult res; Poly p = N.norm(a, fp);
  if (N.capped || N.overflow) { res.v = V_UNDECIDED; res.how = "normal form exceeded the size cap"; nUndecided++; return res; }
  if (p.empty()) { res.how = "polynomial"; nPoly++; return res; }
  if (fp && !N.invKey.empty() && N.zeroModDenominators(p)) { res.how = "polynomial (denominators cleared)"; nPoly++; return res; }
  { std::set<int> c0, s0; selectConds(C.canon(a), c0, s0); // data-dependent control (pivoting): case split against the constant 0
    if (!c0.empty()) { int zero = fp ? TT.cfp(0, TT.t[a].bytes) : TT.cint(0, TT.t[a].bytes); CmpResult r2 = compare(a, zero, fp ? "ALG" : "EXACT", fp, TT.t[a].bytes); if (r2.v != V_UNDECIDED || true) { if (r2.expected.empty()) r2.expected = "0"; return r2; } } }
  res.got = polyStr(p); res.expected = "0";
  std::string pt, va, vb; bool evaluable = false;
  int zero = fp ? TT.cfp(0, TT.t[a].bytes) : TT.cint(0, TT.t[a].bytes);
  if (refute(a, zero, fp, TT.t[a].bytes, false, pt, va, vb, evaluable)) { res.v = V_VIOLATION; res.how = "refuted at a point"; res.point = pt + "  => got " + va + ", expected 0"; nRefuted++; return res; }
  if (!polyHasAtoms(p)) { res.v = V_VIOLATION; res.how = "atom-free polynomial is not zero"; nRefuted++; return res; }
  res.v = V_UNDECIDED; res.how = "non-zero normal form, not refuted"; nUndecided++; return res;
}

} // namespace irf
