// irflow: hash-consed term table, abstract values.
// Part of the static-analysis machinery for romeric/Fastor (see /verif/DESIGN.md §3.1).
#pragma once
#include <cstdint>
#include <cstring>
#include <cstdlib>
#include <map>
#include <unordered_map>
#include <set>
#include <string>
#include <vector>
#include <sstream>
#include <algorithm>

namespace irf {

// ---------------------------------------------------------------- interned opcode names
struct OpTable {
  std::vector<std::string> names;
  std::unordered_map<std::string, int> ix;
  int id(const std::string &s) {
    auto it = ix.find(s);
    if (it != ix.end()) return it->second;
    names.push_back(s);
    ix[s] = (int)names.size() - 1;
    return (int)names.size() - 1;
  }
  const std::string &name(int i) const { return names[i]; }
};
extern OpTable OPS;

// A term is an opcode applied to argument terms, plus an integer payload `k` and a
// width in bytes. Leaves: sym (a[0]=namespace, k=cell), c (integer constant, k=value
// sign-extended), cf (floating constant, k = bits of the value widened to double),
// undef, top, ptr (a[0]=region, k=offset).
struct Term {
  int op;
  std::vector<int> a;
  int64_t k = 0;
  int bytes = 0;
  bool operator==(const Term &o) const { return op == o.op && k == o.k && bytes == o.bytes && a == o.a; }
};
struct TermHash {
  size_t operator()(const Term &t) const {
    size_t h = (size_t)t.op * 1000003u ^ (size_t)t.k * 0x9E3779B97F4A7C15ull ^ (size_t)t.bytes * 7919u;
    for (int x : t.a) h = (h ^ (size_t)x) * 0x100000001B3ull + 0x632BE59BD9B4E019ull;
    return h;
  }
};

struct SymNS { std::string name; int esz; bool fp; bool positive = false; bool isbool = false; };

struct Terms {
  std::vector<Term> t;
  std::unordered_map<Term, int, TermHash> ix;
  std::vector<SymNS> ns;                   // symbol namespaces (one per input region / parameter family)
  std::map<std::string, int> nsix;
  int OP_SYM, OP_C, OP_CF, OP_UNDEF, OP_TOP, OP_PTR, OP_PIECE, OP_CONCAT, OP_SELECT, OP_NOT, OP_AND, OP_OR, OP_XOR,
      OP_FADD, OP_FSUB, OP_FMUL, OP_FDIV, OP_FNEG, OP_FABS, OP_FMA, OP_FMULADD, OP_SQRT, OP_ADD, OP_SUB, OP_MUL, OP_SHL,
      OP_LSHR, OP_ASHR, OP_ZEXT, OP_SEXT, OP_TRUNC1, OP_RATC, OP_ARG, OP_GOR, OP_GAND;
  Terms() {
    OP_SYM = OPS.id("sym"); OP_C = OPS.id("c"); OP_CF = OPS.id("cf"); OP_UNDEF = OPS.id("undef"); OP_TOP = OPS.id("top");
    OP_PTR = OPS.id("ptr"); OP_PIECE = OPS.id("piece"); OP_CONCAT = OPS.id("concat"); OP_SELECT = OPS.id("select");
    OP_NOT = OPS.id("not"); OP_AND = OPS.id("and"); OP_OR = OPS.id("or"); OP_XOR = OPS.id("xor");
    OP_FADD = OPS.id("fadd"); OP_FSUB = OPS.id("fsub"); OP_FMUL = OPS.id("fmul"); OP_FDIV = OPS.id("fdiv");
    OP_FNEG = OPS.id("fneg"); OP_FABS = OPS.id("fabs"); OP_FMA = OPS.id("fma"); OP_FMULADD = OPS.id("fmuladd");
    OP_SQRT = OPS.id("sqrt"); OP_ADD = OPS.id("add"); OP_SUB = OPS.id("sub"); OP_MUL = OPS.id("mul");
    OP_SHL = OPS.id("shl"); OP_LSHR = OPS.id("lshr"); OP_ASHR = OPS.id("ashr"); OP_ZEXT = OPS.id("zext");
    OP_SEXT = OPS.id("sext"); OP_TRUNC1 = OPS.id("trunc1"); OP_RATC = OPS.id("ratc"); OP_ARG = OPS.id("arg");
    OP_GOR = OPS.id("gor"); OP_GAND = OPS.id("gand");
  }
  int mk(int op, std::vector<int> a, int64_t k, int bytes) {
    Term x{op, std::move(a), k, bytes};
    auto it = ix.find(x);
    if (it != ix.end()) return it->second;
    t.push_back(x);
    ix.emplace(std::move(x), (int)t.size() - 1);
    return (int)t.size() - 1;
  }
  int mk(const std::string &op, std::vector<int> a, int64_t k, int bytes) { return mk(OPS.id(op), std::move(a), k, bytes); }
  int nsid(const std::string &name, int esz, bool fp) {
    auto it = nsix.find(name);
    if (it != nsix.end()) return it->second;
    ns.push_back({name, esz, fp});
    nsix[name] = (int)ns.size() - 1;
    return (int)ns.size() - 1;
  }
  int sym(int nsi, int64_t cell) { return mk(OP_SYM, {nsi}, cell, ns[nsi].esz); }
  int cint(int64_t v, int bytes) { return mk(OP_C, {}, v, bytes); }
  int cfp(double d, int bytes) {
    if (bytes == 4) { float f = (float)d; d = f; }
    int64_t k; memcpy(&k, &d, 8);
    return mk(OP_CF, {}, k, bytes);
  }
  double cfval(int id) const { double d; memcpy(&d, &t[id].k, 8); return d; }
  std::string str(int id, int depth = 0) const {
    const Term &x = t[id];
    std::ostringstream s;
    if (x.op == OP_SYM) { s << ns[x.a[0]].name << "[" << x.k << "]"; return s.str(); }
    if (x.op == OP_C) { s << x.k; if (x.bytes != 4) s << ":i" << x.bytes * 8; return s.str(); }
    if (x.op == OP_CF) { s << cfval(id) << (x.bytes == 4 ? "f" : ""); return s.str(); }
    if (x.op == OP_RATC) { s << x.k << "/" << x.bytes; return s.str(); }
    static int maxd = getenv("IRFLOW_STRDEPTH") ? atoi(getenv("IRFLOW_STRDEPTH")) : 7; if (depth > maxd) return "...";
    s << OPS.name(x.op);
    if (x.op == OP_PIECE) s << "<" << x.k << "," << x.bytes << ">";
    s << "(";
    for (size_t i = 0; i < x.a.size(); i++) { if (i) s << ","; s << str(x.a[i], depth + 1); }
    s << ")";
    return s.str();
  }
};
extern Terms TT;

// ---------------------------------------------------------------- abstract values
struct AV {
  enum K { UNDEF, INT, PTR, T, TOP } k = UNDEF;
  int64_t i = 0;   // INT: value (sign-extended)
  int region = -1; // PTR
  int64_t off = 0; // PTR
  int t = -1;      // T: term id
  int bytes = 0;
  bool fp = false;
  static AV Int(int64_t v, int by) { AV a; a.k = INT; a.i = v; a.bytes = by; return a; }
  static AV Ptr(int r, int64_t o) { AV a; a.k = PTR; a.region = r; a.off = o; a.bytes = 8; return a; }
  static AV Tm(int t, int by, bool fp = false) { AV a; a.k = T; a.t = t; a.bytes = by; a.fp = fp; return a; }
  static AV Top(int by = 0) { AV a; a.k = TOP; a.bytes = by; return a; }
  static AV Undef(int by = 0) { AV a; a.bytes = by; return a; }
  bool operator==(const AV &o) const { return k == o.k && i == o.i && region == o.region && off == o.off && t == o.t && bytes == o.bytes; }
  bool operator!=(const AV &o) const { return !(*this == o); }
};
typedef std::vector<AV> VV;

inline int termOf(const AV &v) {
  switch (v.k) {
  case AV::T: return v.t;
  case AV::INT: return TT.cint(v.i, v.bytes);
  case AV::PTR: return TT.mk(TT.OP_PTR, {v.region}, v.off, 8);
  case AV::UNDEF: return TT.mk(TT.OP_UNDEF, {}, 0, v.bytes);
  default: return TT.mk(TT.OP_TOP, {}, 0, v.bytes);
  }
}
inline AV avOfTerm(int t, bool fp = false) {
  const Term &x = TT.t[t];
  if (x.op == TT.OP_C) return AV::Int(x.k, x.bytes);
  if (x.op == TT.OP_PTR) return AV::Ptr(x.a[0], x.k);
  if (x.op == TT.OP_UNDEF) return AV::Undef(x.bytes);
  if (x.op == TT.OP_TOP) return AV::Top(x.bytes);
  return AV::Tm(t, x.bytes, fp);
}
inline AV cfpAV(double d, int by) { return AV::Tm(TT.cfp(d, by), by, true); }

} // namespace irf
