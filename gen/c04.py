# C04 — reading through indices and slices (DESIGN.md §5 C04)
from core import *
from views import *
import random, itertools


def group_sort(W):
    # witnesses sharing a compiled function next to each other (they land in the same chunk)
    return sorted(W, key=lambda w: (w.wit_src, w.id))


def witnesses(tier, seed):
    rng = random.Random(seed * 1009 + 4)
    quick = tier == 'quick'
    W = []
    T3 = ['f32', 'f64', 'i32']
    # ---- scalar indexing, every index in [-n, n)
    shapes = [[7], [3, 4], [2, 3, 4], [2, 3, 2, 3], [2, 2, 3, 2, 2], [2, 2, 2, 2, 2, 2]] + ([] if quick else [[9], [5, 8], [4, 4, 5], [3, 3, 3, 3]])
    for si, dims in enumerate(shapes):
        t = T3[si % 3]
        alli = list(itertools.product(*[range(-n, n) for n in dims]))
        if len(alli) > (150 if quick else 1200):
            alli = rng.sample(alli, 150 if quick else 1200)
        for idx in alli:
            W.append(mk_scalar_index(t, dims, idx))
        for tt in (['c64'] if quick else ['i64', 'c64', 'c128']):
            for idx in rng.sample(alli, min(len(alli), 12)):
                W.append(mk_scalar_index(tt, dims, idx))
    # ---- dynamic ranges, rank 1: exhaustive over (first,last,step) incl. negative / last-relative encodings
    for N in range(1, (9 if quick else 13)):
        for ti, t in enumerate(T3 if not quick else [T3[N % 3]]):
            for ax in seq_axes(N, max_step=4):
                W.append(mk_read(t, [N], [ax]))
        if N in (5, 8, 9):
            for ax in rng.sample(seq_axes(N, max_step=4), 10):
                W.append(mk_read('f64' if N != 8 else 'f32', [N], [ax], 'expr'))
                W.append(mk_read('i32', [N], [ax], 'mutable'))
    # width multiples / non multiples for the contiguous vector route
    for N in (16, 17, 33):
        for (f, l, s) in [(0, -1, 1), (1, -1, 1), (0, N - 1, 1), (0, -1, 2), (1, N, 3), (N - 9, -1, 1), (0, 8, 1), (3, 11, 1), (0, 16, 1), (-N - 1 + 1, -1, 1)]:
            if admissible([Axis('seq', f, l, s)], [N]):
                for t in (T3 if not quick else ['f32', 'f64']):
                    W.append(mk_read(t, [N], [Axis('seq', f, l, s)]))
    # ---- rank 2: exhaustive for small extents, sampled otherwise
    shapes2 = [(3, 4), (4, 5), (5, 9)] if quick else [(M, N) for M in range(1, 7) for N in range(1, 10) if (M + N) % 2 or M == N]
    for si, (M, N) in enumerate(shapes2):
        axM, axN = seq_axes(M, max_step=3), seq_axes(N, max_step=3)
        pairs = list(itertools.product(axM, axN))
        cap = 180 if quick else 500
        if len(pairs) > cap:
            pairs = rng.sample(pairs, cap)
        for a0, a1 in pairs:
            W.append(mk_read(T3[(si + a0.f + a1.s) % 3], [M, N], [a0, a1]))
        for a0, a1 in rng.sample(pairs, min(len(pairs), 12 if quick else 40)):
            W.append(mk_read('f32', [M, N], [a0, a1], 'expr'))
            W.append(mk_read('f64', [M, N], [a0, a1], 'mutable'))
    # rank 2: seq mixed with a dynamic integer, with all, with compile-time ranges
    for (M, N) in [(4, 6), (5, 8)] + ([] if quick else [(3, 9), (7, 4)]):
        for k in range(-1, M):   # inside a slice only non-negative fixed integers and -1 (= last) are pinned down by the documentation
            for ax in rng.sample(seq_axes(N, max_step=3), 6):
                W.append(mk_read('f64', [M, N], [Axis('int', k), ax]))
        for k in range(-1, N):
            for ax in rng.sample(seq_axes(M, max_step=3), 4):
                W.append(mk_read('f32', [M, N], [ax, Axis('int', k)]))
        for ax in rng.sample(seq_axes(N, max_step=3), 8):
            W.append(mk_read('i32', [M, N], [Axis('fseq', 1, M, 2), ax], 'mutable'))
            W.append(mk_read('f64', [M, N], [Axis('all'), ax], 'mutable'))
        for ax in rng.sample(seq_axes(M, max_step=3), 8):
            W.append(mk_read('f32', [M, N], [ax, Axis('fseq', 0, -1, 1)], 'mutable'))
            W.append(mk_read('f64', [M, N], [ax, Axis('fseq', 1, N - 1, 2)], 'mutable'))
    # ---- ranks 3-5: sampled
    for dims in [(3, 4, 5), (2, 5, 8)] + ([(2, 3, 3, 4), (2, 2, 3, 2, 4)] if True else []) + ([] if quick else [(4, 4, 4), (3, 2, 4, 3), (2, 3, 2, 2, 5)]):
        per_axis = [seq_axes(n, max_step=3) for n in dims]
        for _ in range(40 if quick else 160):
            axes = [rng.choice(p) for p in per_axis]
            W.append(mk_read(T3[_ % 3], list(dims), axes))
    # ---- compile-time ranges: fseq / all / fix / iseq, ranks 1-3
    def fseq_family(n, rng, k):
        out = [Axis('all'), Axis('fseq', 0, -1, 1), Axis('fseq', 0, n, 1)]
        tr = all_triples(n, max_step=min(3, n))
        for (f, l, s) in rng.sample(tr, min(k, len(tr))):
            out.append(Axis('fseq', f, l, s))
        out += [Axis('fix', rng.randrange(n)), Axis('fix', -1)]
        return out
    for N in ([4, 7, 9, 16, 17] if quick else [3, 4, 5, 7, 8, 9, 12, 16, 17, 33]):
        for ax in fseq_family(N, rng, 10 if quick else 30):
            for t in (['f32', 'i32'] if quick else T3):
                if admissible([ax], [N]):
                    W.append(mk_read(t, [N], [ax]))
    for (M, N) in ([(3, 4), (4, 8), (5, 9)] if quick else [(3, 4), (4, 8), (5, 9), (8, 8), (6, 17), (9, 5)]):
        fm, fn = fseq_family(M, rng, 5 if quick else 10), fseq_family(N, rng, 6 if quick else 12)
        for a0, a1 in itertools.product(fm, fn):
            if admissible([a0, a1], [M, N]):
                W.append(mk_read(T3[(a0.f + a1.l) % 3], [M, N], [a0, a1]))
        for a0, a1 in rng.sample(list(itertools.product(fm, fn)), 8):
            if admissible([a0, a1], [M, N]):
                W.append(mk_read('f64', [M, N], [a0, a1], 'expr'))
    for dims in [(3, 4, 5), (2, 4, 8)] + ([] if quick else [(4, 3, 9), (2, 3, 4, 5)]):
        fams = [fseq_family(n, rng, 4) for n in dims]
        for _ in range(30 if quick else 120):
            axes = [rng.choice(f) for f in fams]
            if admissible(axes, dims):
                W.append(mk_read(T3[_ % 3], list(dims), axes))
    # iseq (immediate evaluation), ranks 1-2, non-negative only (template parameters are size_t)
    for N in (5, 9):
        for (f, l, s) in rng.sample(all_triples(N, max_step=3, encodings=False), 10):
            W.append(mk_read('f64', [N], [Axis('iseq', f, l, s)], 'mutable'))
    for (f0, l0, s0), (f1, l1, s1) in zip(rng.sample(all_triples(4, 2, False), 8), rng.sample(all_triples(6, 3, False), 8)):
        W.append(mk_read('f32', [4, 6], [Axis('iseq', f0, l0, s0), Axis('iseq', f1, l1, s1)], 'mutable'))
    # ---- the vector routes of the views inside expressions: last extent a multiple of a vector width, contiguous (step 1) and strided
    # (step 2, 3: gathers through vector_setter), const and mutable parents, dynamic and compile-time ranges, ranks 1-3
    # (coverage accounting showed the eval<T>(i) members of the const/nD view classes and the strided gathers unreached)
    k = 0
    for t in T3:
        for (L, s) in [(4, 1), (8, 2), (16, 1), (16, 2), (16, 3), (32, 1), (8, 3)]:
            N = 1 + L * s + 2
            for kind in ('seq', 'fseq'):
                for variant in ('expr', 'mexpr', 'iadd', 'miadd', 'isub', 'mimul', 'midiv', 'sum', 'msum'):
                    k += 1
                    f0 = k % 2
                    W.append(mk_read(t, [N], [Axis(kind, f0, f0 + L * s, s)], variant))
                    if (k + L) % 2 == 0:
                        W.append(mk_read(t, [3, N], [Axis(kind, 0, 3, 2) if kind == 'seq' else Axis('fseq', 0, 3, 2), Axis(kind, f0, f0 + L * s, s)], variant))
                    if L <= 16 and (k + L) % 3 == 0:
                        W.append(mk_read(t, [2, 3, N], [Axis(kind, 0, 2, 1), Axis(kind, 1, 3, 1), Axis(kind, f0, f0 + L * s, s)], variant))
    # narrow slices through the vector route: with C selected columns and a SIMD width L > C one vector of the flattened slice spans
    # several rows (L/C row ends), the opposite regime of the wide family above
    k = 0
    for C in (1, 2, 3, 5, 7):
        for st in (1, 2):
            R = -(-34 // C)            # at least two 16-lane vectors of elements
            N = 1 + C * st + 1
            for kind in ('seq', 'fseq'):
                for variant in ('expr', 'mexpr', 'iadd', 'miadd', 'sum', 'msum'):
                    k += 1
                    t = T3[k % 3]
                    f1 = k % 2
                    W.append(mk_read(t, [R + 1, N], [Axis(kind, f1, f1 + R, 1), Axis(kind, f1, f1 + C * st, st)], variant))
                    if C <= 3 and st == 1:
                        W.append(mk_read(T3[(k + 1) % 3], [2, R // 2 + 1, N], [Axis(kind, 0, 2, 1), Axis(kind, 0, R // 2 + 1, 1), Axis(kind, f1, f1 + C, 1)], variant))
    # the diagonal view diag(A) (tensor_diag_views.h): every consumer kind
    k = 0
    for M in (1, 2, 3, 4, 5, 8, 9, 16, 17):
        for variant in ('mutable', 'mexpr', 'miadd', 'msum'):
            k += 1
            W.append(mk_read(T3[k % 3], [M, M], [Axis('diag')], variant))
    return group_sort(W)


def configs(tier):
    return [Config(isa) for isa in ALL_ISAS]


def check(tier, seed):
    R = Runner('C04', tier, seed)
    try:
        R.run_all(witnesses(tier, seed), configs(tier), chunk=120)
        return finish('C04', tier, seed, R, 'proof',
                      rule='copy-flow: r = A(indices...) / A(view) / A(view)+B with all cells of A symbolic; every result cell must be EXACTly the cell of A that the property names (offset arithmetic computed by gen/views.py from the statement), result fully written, every load inside A (no vector straddling past the end), alignment. Dynamic (first,last,step) and integer indices are supplied to one compiled function as constants, one interpretation per valuation: scalar indices exhaustively in [-n,n) (ranks 1-3, sampled 4-6), rank-1 ranges exhaustively for n<=8 (thorough 12) including negative/last-relative encodings, rank 2 exhaustive for small extents and sampled beyond, ranks 3-5 sampled; compile-time fseq/all/fix/iseq families. Bounded exhaustive over index parameters, universal over data.',
                      trusted=['clang-14 front end and -O2 code generation', 'LLVM IR semantics as modelled by irflow', 'x86 lane table', 'selection oracle gen/views.py'],
                      floors=load_floors('C04', tier), assumptions=['index parameters outside the enumerated boxes are not explored', 'inside a slice only non-negative fixed integers and -1 (= last element) are enumerated; other negative fixed integers inside a slice are not pinned down by the documentation'])
    finally:
        R.cleanup()
