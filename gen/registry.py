# per-property manifest entries; bin/mkmanifest.py turns this into MANIFEST.json
TRUSTED = 'Trusted base: clang-14 front end/code generation (the IR analysed is the IR clang emits for each -m<isa> flag set; other compilers are out of scope), LLVM IR semantics as modelled by irflow, the x86 lane table (tools/irflow/calls.cc), and the small reference programs / oracles the Python generators emit from the property statement.'
CHECKS = {
 'C01': dict(category='proof', design_ref='DESIGN.md §5 C01',
   technique='abstract interpretation of clang-emitted LLVM IR (irflow): per-cell polynomial identity against a naive reference loop, plus footprint/coverage/alignment/allocation obligations',
   text='For every enumerated (form, element type, M, K, N, ISA) program the Fastor product and a naive triple loop are interpreted abstractly with all operand cells symbolic; every result cell is shown to be the same polynomial (hence equal for all operand values, exactly over the integers), every result byte is written, nothing else is stored to, all loads stay inside the operands, alignment-requiring accesses are justified and the op tree has at most K roundings-relevant multiplications with no fast-math flags (premise of the K*eps*sum|a||b| bound). A universally quantified per-program proof; the quantifier over shapes is a bounded enumeration.',
   note=TRUSTED + ' Shapes outside the enumerated boxes are not explored. NaN inputs excluded for complex (libstdc++ fallback).'),
}
NOT_BUILT = 'check not built yet (build in progress; see DESIGN.md §10)'
