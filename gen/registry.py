# per-property manifest entries; bin/mkmanifest.py turns this into MANIFEST.json
TRUSTED = 'Trusted base: clang-14 front end/code generation (the IR analysed is the IR clang emits for each -m<isa> flag set; other compilers are out of scope), LLVM IR semantics as modelled by irflow, the x86 lane table (tools/irflow/calls.cc), and the small reference programs / oracles the Python generators emit from the property statement.'
CHECKS = {
 'C01': dict(category='proof', design_ref='DESIGN.md §5 C01',
   technique='abstract interpretation of clang-emitted LLVM IR (irflow): per-cell polynomial identity against a naive reference loop, plus footprint/coverage/alignment/allocation obligations',
   text='For every enumerated (form, element type, M, K, N, ISA) program the Fastor product and a naive triple loop are interpreted abstractly with all operand cells symbolic; every result cell is shown to be the same polynomial (hence equal for all operand values, exactly over the integers), every result byte is written, nothing else is stored to, all loads stay inside the operands, alignment-requiring accesses are justified and the op tree has at most K roundings-relevant multiplications with no fast-math flags (premise of the K*eps*sum|a||b| bound). A universally quantified per-program proof; the quantifier over shapes is a bounded enumeration.',
   note=TRUSTED + ' Shapes outside the enumerated boxes are not explored. NaN inputs excluded for complex (libstdc++ fallback).'),
}

def _c(cat, ref, tech, text, note=TRUSTED, engine='irflow'):
    return dict(category=cat, design_ref=ref, technique=tech, text=text, note=note, engine=engine)

IRF = 'abstract interpretation of clang-emitted LLVM IR (irflow): '
CHECKS.update({
 'C04': _c('proof', 'DESIGN.md §5 C04', IRF + 'copy-flow — every result cell must be exactly the parent cell named by the selection oracle; footprint of every load',
   'For every enumerated (element type, shape, view kind, index valuation, ISA) r = A(indices/slices) is interpreted with all cells of A symbolic and each result cell is shown to be exactly the selected cell (bit-for-bit copy, for all data), all loads inside A. Index parameters are enumerated (exhaustive for ranks 1-2 small extents, sampled beyond), data is universal.'),
 'C05': _c('proof', 'DESIGN.md §5 C05', IRF + 'whole-tensor comparison against a reference that updates only the selected cells (frame condition), plus store footprint',
   'A(view) op= rhs is interpreted with A inout; the entire tensor is compared with a reference that applies the scalar operator to exactly the oracle-selected cells: selected cells carry op(A_q, rhs_j), every other cell still holds its initial symbol, nothing outside A is stored to. All operators and right-hand-side kinds, with and without FASTOR_USE_VECTORISED_EXPR_ASSIGN.'),
 'C14': _c('proof', 'DESIGN.md §5 C14', IRF + 'copy-flow map comparison; static_assert on decltype for extents (tmeta)',
   'For every enumerated (api, type, permutation, shape, configuration) the result type is asserted by the compiler and every output cell is shown to be exactly the input cell the permutation law names (conjugation negates exactly the imaginary cells); round trips compose to the identity map; legacy permutation<> must follow p or p^-1 consistently for extents and elements.'),
 'C17': _c('proof', 'DESIGN.md §5 C17', IRF + 'per-cell polynomial identity with structural zeros as constant inputs; full write coverage',
   'For every enumerated (type, M, K, N, tag pair, ISA) the triangular product with out-of-triangle cells fixed to 0 equals the ordinary product cell by cell as polynomials; every cell of the MxN result is written; loads stay inside the operands.'),
 'C18': _c('proof', 'DESIGN.md §5 C18', IRF + 'same-region source and destination slices; whole-tensor EXACT comparison against a snapshot-then-update reference',
   'A(dst).noalias() op= A(src) on one inout tensor is interpreted with all cells symbolic and compared, over the whole tensor, with a reference that reads the complete right-hand side before writing; also expressions of overlapping slices, re-armed repeated application through one view object, and perfect overlap without noalias(). Dynamic and compile-time views, five operators.'),
})

NOT_BUILT = 'check not built yet (build in progress; see DESIGN.md §10)'
