# per-property manifest entries; bin/mkmanifest.py turns this into MANIFEST.json
TRUSTED = 'Trusted base: clang-14 front end/code generation (the IR analysed is the IR clang emits for each -m<isa> flag set; other compilers are out of scope), LLVM IR semantics as modelled by irflow, the x86 lane table (tools/irflow/calls.cc), and the small reference programs / oracles the Python generators emit from the property statement.'
CHECKS = {
 'C01': dict(category='proof', design_ref='DESIGN.md §5 C01',
   technique='abstract interpretation of clang-emitted LLVM IR (irflow): per-cell polynomial identity against a naive reference loop, plus footprint/coverage/alignment/allocation obligations',
   text='For every enumerated (form, element type, M, K, N, ISA) program the Fastor product and a naive triple loop are interpreted abstractly with all operand cells symbolic; every result cell is shown to be the same polynomial (hence equal for all operand values, exactly over the integers), every result byte is written, nothing else is stored to, all loads stay inside the operands, alignment-requiring accesses are justified and the op tree has at most K roundings-relevant multiplications with no fast-math flags (premise of the K*eps*sum|a||b| bound). A universally quantified per-program proof; the quantifier over shapes is a bounded enumeration.',
   note=TRUSTED + ' Shapes outside the enumerated boxes are not explored. NaN inputs excluded for complex (libstdc++ fallback).'),
}

def _c(cat, ref, tech, text, note=None, engine='irflow'):
    note = note or TRUSTED
    return dict(category=cat, design_ref=ref, technique=tech, text=text, note=note, engine=engine)

IRF = 'abstract interpretation of clang-emitted LLVM IR (irflow): '
CHECKS.update({
 'C04': _c('proof', 'DESIGN.md §5 C04', IRF + 'copy-flow — every result cell must be exactly the parent cell named by the selection oracle; footprint of every load',
   'For every enumerated (element type, shape, view kind, index valuation, ISA) r = A(indices/slices) is interpreted with all cells of A symbolic and each result cell is shown to be exactly the selected cell (bit-for-bit copy, for all data), all loads inside A. Index parameters are enumerated (exhaustive for ranks 1-2 small extents, sampled beyond), data is universal.'),
 'C05': _c('proof', 'DESIGN.md §5 C05', IRF + 'whole-tensor comparison against a reference that updates only the selected cells (frame condition), plus store footprint',
   'A(view) op= rhs is interpreted with A inout; the entire tensor is compared with a reference that applies the scalar operator to exactly the oracle-selected cells: selected cells carry op(A_q, rhs_j), every other cell still holds its initial symbol, nothing outside A is stored to. All operators and right-hand-side kinds, with and without FASTOR_USE_VECTORISED_EXPR_ASSIGN.'),
 'C14': _c('proof', 'DESIGN.md §5 C14', IRF + 'copy-flow map comparison; static_assert on decltype for extents (tmeta)',
   'For every enumerated (api, type, permutation, shape, configuration) the result type is asserted by the compiler and every output cell is shown to be exactly the input cell the permutation law names (conjugation negates exactly the imaginary cells); round trips compose to the identity map; legacy permutation<> must follow p or p^-1 consistently for extents and elements.'),
 'C17': _c('proof', 'DESIGN.md §5 C17', IRF + 'per-cell polynomial identity with structural zeros as constant inputs; full write coverage',
   'For every enumerated (type, M, K, N, tag pair, ISA) the triangular product with out-of-triangle cells fixed to 0 equals the ordinary product cell by cell as polynomials; every cell of the MxN result is written; loads stay inside the operands.'),
 'C18': _c('proof', 'DESIGN.md §5 C18', IRF + 'same-region source and destination slices; whole-tensor EXACT comparison against a snapshot-then-update reference',
   'A(dst).noalias() op= A(src) on one inout tensor is interpreted with all cells symbolic and compared, over the whole tensor, with a reference that reads the complete right-hand side before writing; also expressions of overlapping slices, re-armed repeated application through one view object, and perfect overlap without noalias(). Dynamic and compile-time views, five operators.'),
})

CHECKS.update({
 'C02': _c('proof', 'DESIGN.md §5 C02', IRF + 'EXACT term equality (bit-preserving rewrites only) of every flat position against the same scalar expression compiled by the same compiler; Shannon expansion for boolean-valued expressions',
   'For every enumerated (expression tree, size, element type, assignment form, ISA) each position p of the destination is shown to be the same IEEE/integer function of the p-th operand elements as the scalar C++ expression (vector body, scalar tail and every residue under one oracle); division by a scalar is compared algebraically (documented reciprocal multiply).'),
 'C03': _c('proof', 'DESIGN.md §5 C03', IRF + 'per-element polynomial identity with the naive Einstein sum; static_assert on decltype for the result type (tmeta)',
   'For every enumerated index pattern (all labelings of ranks <= 3, sampled rank 4), extents, type and configuration the compiler asserts the result type (free indices in first-appearance order) and every element is shown to be the polynomial the Einstein sum denotes; einsum, contraction, explicit-output (C++17), single-tensor traces, inner and outer.'),
 'C08': _c('proof', 'DESIGN.md §5 C08', IRF + 'lane-wise EXACT/ALGEBRAIC/MINMAX comparison of each SIMDVector<T,ABI> operation with a scalar loop over the lanes; symbolic masks',
   'For every (operation, element type, ABI, ISA build) lane i of the result is shown to be the scalar operation on lane i of the operands, horizontal operations are folds over exactly the lanes, set() uses one argument order under every ABI, and masked loads/stores with a symbolic mask (all 2^Size masks) touch only enabled lanes. Intrinsic specialisations and the generic fallback are both covered because every ABI is instantiated under every ISA.'),
 'C09': _c('translation_validation', 'DESIGN.md §5 C09', IRF + 'relational: lazy-operator program vs eager-temporary program over the same symbolic operands; EXACT (ALGEBRAIC for re-associated chains and staged sums)',
   'Each case is a pair of programs; the destination contents after the lazy form and after the eager form are compared term for term. Covers %, inv, det, trans, cof, adj, solve, norm, trace, chains of 3-5 products, five assignment operators and destination-on-the-right-hand-side aliasing.'),
 'C15': _c('other', 'DESIGN.md §5 C15', IRF + 'per-element polynomial identity (degree 3/4) with the full Einstein sum; static_assert on the declared type; permutation diagnosis of mismatches',
   'For a fixed corpus of 3- and 4-operand index topologies and extent assignments the declared type is asserted and every element compared with the full Einstein sum, under op-min on/off and FASTOR_KEEP_DP_FIXED. The unchanged tree violates the property (known findings F09, F19, F20: results in pairing order / wrong values for 4 operands / configuration-dependent acceptance); the check reports those as KNOWN-FINDING and any other violation as VIOLATION.'),
 'C16': _c('other', 'DESIGN.md §5 C16', IRF + 'polynomial folds, MINMAX sets, Leibniz determinant oracle, Shannon expansion of predicates',
   'sum/product/inner/trace/norm are shown to be folds over every element once, min/max to be min/max over exactly the elements (no foreign seed), determinant n<=4 to equal the Leibniz polynomial, all_of/any_of/none_of/isequal/issymmetric to be the boolean functions of their comparison atoms. Not decided: determinants n>4 (pivot search) and the numeric size of rounding errors (premises only).'),
 'C19': _c('proof', 'DESIGN.md §5 C19', IRF + 'copy-flow for index-tensor reads, whole-tensor frame comparison for writes, symbolic masks via gated merge',
   'Index tensors are constant sidecar cells (one compiled function, one interpretation per index vector, exhaustive for short vectors over small parents); masks are symbolic data so one interpretation covers all 2^n masks: A(mask) op= rhs leaves cell p as select(m_p, op(A_p,r_p), A_p).'),
 'C20': _c('other', 'DESIGN.md §5 C20', IRF + 'whole-buffer comparison of TensorMap operations on alignof(T)-aligned raw regions; alias sequences through reshape/flatten/squeeze; copy-flow maps for layout conversion and constructors',
   'Operations through TensorMap over a raw buffer leave exactly the state plain loops leave, with no alignment-requiring access (all misalignments at once); reshape/flatten/squeeze alias the source storage; tocolumnmajor/torowmajor round trips are the identity and constructors store row-major. Known finding F21: the two conversion functions implement each other\'s documented map.'),
})

_LA_NOTE = TRUSTED + ' Decides the exact-arithmetic (real-number) clause only: the floating-point residual bounds of the property (c*n*eps*cond(A) ...) quantify over runtime conditioning and are NOT decided by any static argument in reach; an algebraically right but numerically poor formulation is not detected. Pivot searches are data-dependent and not analysed.'
CHECKS.update({
 'C10': _c('other', 'DESIGN.md §5 C10, §6', IRF + 'inputs parametrised as A = L(lam) D(del) U(mu); A*X - I and X*A - I must normalise to the zero Laurent polynomial',
   'For SimpleInv, BlockLU and SimpleLU inversion, sizes 1..7 with the full parametrisation (every matrix with non-singular leading blocks) and up to 17 (thorough 33) with bidiagonal factors, the interpreted inverse is shown to satisfy A*X = X*A = I identically in exact arithmetic; triangular inverses likewise; plus write coverage, footprint, alignment, allocation and dependence on every input element.', note=_LA_NOTE),
 'C11': _c('other', 'DESIGN.md §5 C11, §6', IRF + 'uniqueness of LU on A = L(lam) D(del) U(mu): returned factors must normalise to lam and del*mu cell by cell; exact structural constants on plain input',
   'For BlockLU and SimpleLU, L and U are shown to be exactly the factors of the parametrised input (hence L*U = A, unit lower / upper triangular) in exact arithmetic for n <= 9 fully and to 33 banded; on plain symbolic input the opposite triangles are the literal constant 0, the diagonal of L is 1 and the dependence sets contain the minor-based sets.', note=_LA_NOTE),
 'C12': _c('other', 'DESIGN.md §5 C12, §6', IRF + 'right-hand side parametrised as b = A*x0 with symbolic x0; solve must normalise to x0; column separability on plain input',
   'For the three unpivoted strategies, vector and multi-column right-hand sides, and the substitution helpers, the interpreted solution is shown to equal the symbolic solution x0 identically in exact arithmetic; column j of X mentions only column j of B.', note=_LA_NOTE),
 'C13': _c('other', 'DESIGN.md §5 C13, §6', IRF + 'families A = Q0*R0 with constant rational orthogonal Q0 and symbolic upper-triangular R0 (positive diagonal): uniqueness of QR gives Q == Q0, R == R0',
   'For modified Gram-Schmidt QR on each family (identity, Hadamard, Pythagorean rotations, block and Kronecker combinations, n <= 8 quick / 12 thorough) Q and R are shown to be exactly Q0 and R0 in exact arithmetic, determinant<QR> the product of the diagonal; on plain input R is exactly zero below the diagonal and Gram-Schmidt causality holds. Universal over R0 for each Q0, not over all matrices.', note=_LA_NOTE),
})

NOT_BUILT = 'check not built yet (build in progress; see DESIGN.md §10)'
