# C20 — wrapped/reshaped tensors are true aliases; layout conversions are exact inverses (DESIGN.md §5 C20)
from core import *
from c04 import group_sort
import random, itertools


def colmajor_off(idx, dims):
    off, stride = 0, 1
    for i, n in zip(idx, dims):
        off += i * stride; stride *= n
    return off


def mk_layout(t, dims, fn):
    cell, per = CELL[t]
    n = prod(dims)
    m = [0] * n
    for idx in multi_indices(dims):
        r, c = flat(idx, dims), colmajor_off(idx, dims)
        if fn == 'tocolumnmajor':
            m[c] = r          # element (i0..ik) is placed at its column-major offset
        elif fn == 'torowmajor':
            m[r] = c          # the inverse: the element stored at the column-major offset returns to the row-major one
    if fn == 'roundtrip':
        m = list(range(n)); call = 'torowmajor(tocolumnmajor(a))'
    elif fn == 'roundtrip2':
        m = list(range(n)); call = 'tocolumnmajor(torowmajor(a))'
    else:
        call = '%s(a)' % fn
    wit = 'extern "C" void @W@(const %s& a, %s& r){ r = %s; }' % (tensor_t(t, dims), tensor_t(t, dims), call)
    return Witness('%s_%s_%s' % (fn, t, 'x'.join(map(str, dims))), 'layout.' + fn, {'type': t, 'dims': list(dims), 'fn': fn}, wit, '', [treg('a', t, dims), treg('r', t, dims, 'out')],
                   [{'mod': 'wit', 'fn': '@W@', 'args': ['a', 'r']}], [{'kind': 'copy', 'region': 'r', 'ns': 'a', 'map': [q * per + c for q in m for c in range(per)]}])


def mk_map_op(t, dims, kind):
    """an operation applied through TensorMap<T,...>(buf) on a raw buffer of alignment alignof(T) only,
    compared with what the operation does to an owning tensor holding the same values (plain loops)"""
    ct = CTYPE[t]; n = prod(dims)
    mt = 'TensorMap<%s%s>' % (ct, ''.join(',%d' % d for d in dims))
    regions = [rreg('buf', t, n, role='inout', init='sym'), rreg('bref', t, n, init='sym', ns='buf'), treg('a', t, dims), treg('b', t, dims), rreg('s', t, 1, role='in', init='sym')]
    mode = 'EXACT'
    if kind == 'assign_expr':
        stmt, ref = 'm = a*b - a;', 'm[i] = a[i]*b[i] - a[i];'
    elif kind == 'iadd':
        stmt, ref = 'm += a;', 'm[i] = m[i] + a[i];'
    elif kind == 'imul_scalar':
        stmt, ref = 'm *= s;', 'm[i] = m[i] * s;'
    elif kind == 'isub_expr':
        stmt, ref = 'm -= a + b;', 'm[i] = m[i] - (a[i] + b[i]);'
    elif kind == 'self_expr':
        stmt, ref = 'm = m*a + m;', 'm[i] = m[i]*a[i] + m[i];'
    elif kind == 'fill':
        stmt, ref = 'm.fill(s);', 'm[i] = s;'
    elif kind == 'ones':
        stmt, ref = 'm.ones();', 'm[i] = 1;'
    elif kind == 'zeros':
        stmt, ref = 'm.zeros();', 'm[i] = 0;'
    elif kind == 'iota':
        stmt, ref, mode = 'm.iota(s);', 'm[i] = s + (%s)i;' % ct, 'ALG'
    elif kind in ('iadd_int', 'isub_int', 'imul_int', 'idiv_int', 'set_int'):
        # a scalar of INTEGRAL type on the right (m /= 3, m *= k): separate overloads of the scalar assignment kernels
        o = {'iadd_int': '+', 'isub_int': '-', 'imul_int': '*', 'idiv_int': '/', 'set_int': ''}[kind]
        stmt = 'm %s= k;' % o
        ref = 'm[i] = m[i] %s (%s)k;' % (o, ct) if o else 'm[i] = (%s)k;' % ct
    elif kind == 'idiv_lit':
        stmt, ref = 'm /= 2;', 'm[i] = m[i] / (%s)2;' % ct
    wit = 'static_assert(sizeof(%s) > 0, "complete type");\nextern "C" void @W@(%s* buf, const %s& a, const %s& b, %s s, int k){ %s m(buf); %s }' % (tensor_t(t, dims), ct, tensor_t(t, dims), tensor_t(t, dims), ct, mt, stmt)
    refc = 'extern "C" void @R@(%s* m, const %s* a, const %s* b, %s s, int k){ for(int i=0;i<%d;i++){ %s } }' % (ct, ct, ct, ct, n, ref)
    return Witness('map_%s_%s_%s' % (kind, t, 'x'.join(map(str, dims))), 'map.write.' + kind, {'type': t, 'dims': list(dims), 'kind': kind}, wit, refc, regions,
                   [{'mod': 'wit', 'fn': '@W@', 'args': ['buf', 'a', 'b', {'scalar': 's'}, {'int': 3}]}, {'mod': 'ref', 'fn': '@R@', 'args': ['bref', 'a', 'b', {'scalar': 's'}, {'int': 3}]}],
                   [{'kind': 'equal', 'a': 'buf', 'b': 'bref', 'cells': n, 'mode': mode}])


MAP_OPS = {'=': 'x = y', '+=': 'x = x + y', '-=': 'x = x - y', '*=': 'x = x * y', '/=': 'x = x / y'}
OPN = {'=': 'set', '+=': 'add', '-=': 'sub', '*=': 'mul', '/=': 'div'}


def mk_map_matrix(t, dims, dst, op, src):
    """dst op= src for every destination kind (map over a raw buffer / owning tensor / reshaped map of a tensor) and every
    source kind (scalar, tensor, bare map, expression of tensors, expression containing a map): the buffer (or tensor) must
    end up exactly as the plain loop leaves it"""
    ct = CTYPE[t]; n = prod(dims)
    tt = tensor_t(t, dims)
    mt = 'TensorMap<%s%s>' % (ct, ''.join(',%d' % d for d in dims))
    srcx, srcr = {'scalar': ('s', 's'), 'tensor': ('a', 'a[i]'), 'map': ('mq', 'q[i]'), 'expr': ('(a*b - b)', '(a[i]*b[i] - b[i])'), 'mapexpr': ('(mq + a)', '(q[i] + a[i])')}[src]
    mode = 'ALG' if (op == '/=' and src == 'scalar' and t in ('f32', 'f64')) else 'EXACT'
    decl = '%s mq(q);' % mt if 'map' in src else ''
    if dst == 'map':
        wit = 'static_assert(sizeof(%s) > 0, "complete type");\nextern "C" void @W@(%s* d, %s* q, const %s& a, const %s& b, %s s){ %s m(d); %s m %s %s; }' % (tt, ct, ct, tt, tt, ct, mt, decl, op, srcx)
        dreg = rreg('d', t, n, role='inout', init='sym')
    elif dst == 'tensor':
        wit = 'extern "C" void @W@(%s& d, %s* q, const %s& a, const %s& b, %s s){ %s d %s %s; }' % (tt, ct, tt, tt, ct, decl, op, srcx)
        dreg = treg('d', t, dims, 'inout', init='sym')
    else:   # a flattened map of an owning tensor: the write must land in the tensor
        wit = 'extern "C" void @W@(%s& d, %s* q, const %s& a, const %s& b, %s s){ %s auto m = flatten(d); auto fa = flatten(a); auto fb = flatten(b); m %s %s; }' % (tt, ct, tt, tt, ct, decl.replace(mt, 'TensorMap<%s,%d>' % (ct, n)), op, srcx.replace('a', 'fa').replace('b', 'fb') if src in ('tensor', 'expr', 'mapexpr') else srcx)
        dreg = treg('d', t, dims, 'inout', init='sym')
    ref = 'extern "C" void @R@(%s* d, const %s* q, const %s* a, const %s* b, %s s){ for(int i=0;i<%d;i++){ %s& x = d[i]; %s y = %s; %s; } }' % (ct, ct, ct, ct, ct, n, ct, ct, srcr, MAP_OPS[op])
    regions = [dreg, rreg('dref', t, n, init='sym', ns='d'), rreg('q', t, n, role='in', init='sym'), treg('a', t, dims), treg('b', t, dims), rreg('s', t, 1, role='in', init='sym')]
    return Witness('mapmx_%s_%s_%s_%s_%s' % (dst, OPN[op], src, t, 'x'.join(map(str, dims))), 'map.matrix.%s.%s' % (dst, src), {'type': t, 'dims': list(dims), 'dst': dst, 'op': op, 'src': src}, wit, ref, regions,
                   [{'mod': 'wit', 'fn': '@W@', 'args': ['d', 'q', 'a', 'b', {'scalar': 's'}]}, {'mod': 'ref', 'fn': '@R@', 'args': ['dref', 'q', 'a', 'b', {'scalar': 's'}]}],
                   [{'kind': 'equal', 'a': 'd', 'b': 'dref', 'cells': n, 'mode': mode}])


def mk_map_view(t, dims, kind, op, src):
    """slices and boolean masks of a TensorMap over a raw buffer: the buffer must end up as the plain loop over the selected cells leaves it"""
    ct = CTYPE[t]; n = prod(dims)
    tt = tensor_t(t, dims)
    mt = 'TensorMap<%s%s>' % (ct, ''.join(',%d' % d for d in dims))
    if len(dims) == 1:
        N = dims[0]; f, l, st = 1, N - 1, 2
        sel = list(range(f, l, st)); ext = [len(sel)]
        view = {'seq': 'm(seq(%d,%d,%d))' % (f, l, st), 'fseq': 'm(fseq<%d,%d,%d>())' % (f, l, st)}.get(kind)
    else:
        M, N = dims; r0, r1, rs, c0, c1, cs = 0, M, 2, 1, N, 2
        sel = [i * N + j for i in range(r0, r1, rs) for j in range(c0, c1, cs)]; ext = [len(range(r0, r1, rs)), len(range(c0, c1, cs))]
        view = {'seq': 'm(seq(%d,%d,%d),seq(%d,%d,%d))' % (r0, r1, rs, c0, c1, cs), 'fseq': 'm(fseq<%d,%d,%d>(),fseq<%d,%d,%d>())' % (r0, r1, rs, c0, c1, cs)}.get(kind)
    regions = [rreg('d', t, n, role='inout', init='sym'), rreg('dref', t, n, init='sym', ns='d'), rreg('s', t, 1, role='in', init='sym')]
    cop = MAP_OPS[op]
    mode = 'ALG' if (op == '/=' and src == 'scalar' and t in ('f32', 'f64')) else 'EXACT'
    if kind == 'mask':
        regions.append({'name': 'k', 'ety': 'bool', 'cells': n, 'kind': 'tensor', 'role': 'in'})
        te = tensor_t(t, dims); regions.append(treg('b', t, dims))
        rhs_w, rhs_r = ('s', 's') if src == 'scalar' else ('b', 'b[i]')
        wit = 'extern "C" void @W@(%s* d, const %s& k, const %s& b, %s s){ %s m(d); m(k) %s %s; }' % (ct, tensor_t('bool', dims), te, ct, mt, op, rhs_w)
        ref = 'extern "C" void @R@(%s* d, const bool* k, const %s* b, %s s){ for(int i=0;i<%d;i++) if(k[i]){ %s& x = d[i]; %s y = %s; %s; } }' % (ct, ct, ct, n, ct, ct, rhs_r, cop)
        args = ['d', 'k', 'b', {'scalar': 's'}]; rargs = ['dref', 'k', 'b', {'scalar': 's'}]
    else:
        te = tensor_t(t, ext); regions.append(treg('b', t, ext))
        regions.append({'name': 'idx', 'ety': 'i32', 'cells': len(sel), 'kind': 'raw', 'role': 'in', 'init': 'ints', 'ints': sel})
        rhs_w, rhs_r = ('s', 's') if src == 'scalar' else ('b', 'b[q]')
        wit = 'static_assert(sizeof(%s) > 0, "complete type");\nextern "C" void @W@(%s* d, const %s& b, %s s){ %s m(d); %s %s %s; }' % (tt, ct, te, ct, mt, view, op, rhs_w)
        ref = 'extern "C" void @R@(%s* d, const %s* b, %s s, const int* idx){ for(int q=0;q<%d;q++){ %s& x = d[idx[q]]; %s y = %s; %s; } }' % (ct, ct, ct, len(sel), ct, ct, rhs_r, cop)
        args = ['d', 'b', {'scalar': 's'}]; rargs = ['dref', 'b', {'scalar': 's'}, 'idx']
    return Witness('mapview_%s_%s_%s_%s_%s' % (kind, OPN[op], src, t, 'x'.join(map(str, dims))), 'map.view.' + kind, {'type': t, 'dims': list(dims), 'kind': kind, 'op': op, 'src': src}, wit, ref, regions,
                   [{'mod': 'wit', 'fn': '@W@', 'args': args}, {'mod': 'ref', 'fn': '@R@', 'args': rargs}], [{'kind': 'equal', 'a': 'd', 'b': 'dref', 'cells': n, 'mode': mode}])


def mk_map_read(t, dims, kind):
    ct = CTYPE[t]; n = prod(dims)
    mt = 'TensorMap<%s%s>' % (ct, ''.join(',%d' % d for d in dims))
    mode = 'EXACT'
    out_n = n
    if kind == 'expr':
        body, ref = 'r = ma*mb - ma;', 'for(int i=0;i<%d;i++) r[i] = pa[i]*pb[i] - pa[i];' % n
        rt = tensor_t(t, dims)
    elif kind == 'copy':
        body, ref = 'r = ma;', 'for(int i=0;i<%d;i++) r[i] = pa[i];' % n
        rt = tensor_t(t, dims)
    elif kind == 'sum':
        body, ref = 'r(0) = sum(ma);', '%s h=0; for(int i=0;i<%d;i++) h+=pa[i]; r[0]=h;' % (ct, n); mode = 'ALG'; out_n = 1
        rt = tensor_t(t, [1])
    elif kind == 'matmul':
        M, N = dims; K = N
        body = 'TensorMap<%s,%d,%d> mc(pb); r = matmul(ma, mc);' % (ct, K, M)
        ref = 'for(int i=0;i<%d;i++) for(int j=0;j<%d;j++){ %s s=0; for(int k=0;k<%d;k++) s+=pa[i*%d+k]*pb[k*%d+j]; r[i*%d+j]=s; }' % (M, M, ct, K, K, M, M); mode = 'ALG'; out_n = M * M
        rt = tensor_t(t, [M, M])
    wit = 'extern "C" void @W@(%s* pa, %s* pb, %s& r){ %s ma(pa), mb(pb); %s }' % (ct, ct, rt, mt, body)
    refc = 'extern "C" void @R@(const %s* pa, const %s* pb, %s* r){ %s }' % (ct, ct, ct, ref)
    rdims = [1] if kind == 'sum' else ([dims[0], dims[0]] if kind == 'matmul' else dims)
    regions = [rreg('pa', t, n, role='in', init='sym'), rreg('pb', t, n, role='in', init='sym'), treg('r', t, rdims, 'out'), rreg('rref', t, out_n)]
    return Witness('mapread_%s_%s_%s' % (kind, t, 'x'.join(map(str, dims))), 'map.read.' + kind, {'type': t, 'dims': list(dims), 'kind': kind}, wit, refc, regions,
                   [{'mod': 'wit', 'fn': '@W@', 'args': ['pa', 'pb', 'r']}, {'mod': 'ref', 'fn': '@R@', 'args': ['pa', 'pb', 'rref']}], [{'kind': 'equal', 'a': 'r', 'b': 'rref', 'cells': out_n, 'mode': mode}])


def mk_alias(t, dims, how, newdims=None):
    """reshape/flatten/squeeze return maps over the source: writes through the map and through the source interleave on one storage"""
    ct = CTYPE[t]; n = prod(dims)
    if how == 'reshape':
        mk_ = 'auto m = reshape<%s>(a);' % ','.join(map(str, newdims)); nd = newdims
    elif how == 'flatten':
        mk_ = 'auto m = flatten(a);'; nd = [n]
    else:
        mk_ = 'auto m = squeeze(a);'; nd = [d for d in dims if d != 1] or [1]
    last_m = ','.join(str(d - 1) for d in nd); last_a = ','.join(str(d - 1) for d in dims); zero_a = ','.join('0' for d in dims)
    body = '%s m += s; a(%s) = s; m(%s) *= s; a *= s; m -= b1;' % (mk_, zero_a, last_m)
    wit = 'extern "C" void @W@(%s& a, const %s& b1, %s s){ %s }' % (tensor_t(t, dims), tensor_t(t, nd), ct, body)
    ref = 'extern "C" void @R@(%s* a, const %s* b, %s s){ for(int i=0;i<%d;i++) a[i]=a[i]+s; a[0]=s; a[%d]=a[%d]*s; for(int i=0;i<%d;i++) a[i]=a[i]*s; for(int i=0;i<%d;i++) a[i]=a[i]-b[i]; }' % (ct, ct, ct, n, n - 1, n - 1, n, n)
    regions = [treg('a', t, dims, 'inout'), rreg('aref', t, n, init='sym', ns='a'), treg('b1', t, nd), rreg('s', t, 1, role='in', init='sym')]
    return Witness('alias_%s_%s_%s%s' % (how, t, 'x'.join(map(str, dims)), ('_to_' + 'x'.join(map(str, newdims))) if newdims else ''), 'alias.' + how, {'type': t, 'dims': list(dims), 'how': how, 'new': newdims}, wit, ref, regions,
                   [{'mod': 'wit', 'fn': '@W@', 'args': ['a', 'b1', {'scalar': 's'}]}, {'mod': 'ref', 'fn': '@R@', 'args': ['aref', 'b1', {'scalar': 's'}]}], [{'kind': 'equal', 'a': 'a', 'b': 'aref', 'cells': n, 'mode': 'EXACT'}])


def mk_ctor(t, dims, how):
    ct = CTYPE[t]; n = prod(dims)
    tt = tensor_t(t, dims)
    if how == 'pointer':
        wit = 'extern "C" void @W@(const %s* p, %s& r){ %s x(p); r = x; }' % (ct, tt, tt); m = list(range(n))
    elif how == 'pointer_colmajor':
        wit = 'extern "C" void @W@(const %s* p, %s& r){ %s x(p, ColumnMajor); r = x; }' % (ct, tt, tt)
        m = [0] * n
        for idx in multi_indices(dims):
            m[flat(idx, dims)] = colmajor_off(idx, dims)     # the buffer holds the elements in column-major order
    elif how in ('vector', 'vector_colmajor', 'array_colmajor'):
        cm = how.endswith('colmajor')
        if how.startswith('vector'):   # the std::vector is the harness's own (its allocation is not the library's)
            wit = 'extern "C" void @W@(const %s* p, %s& r){ std::vector<%s> v(p, p + %d); %s x(v%s); r = x; }' % (ct, tt, ct, n, tt, ', ColumnMajor' if cm else '')
        else:
            wit = 'extern "C" void @W@(const %s* p, %s& r){ std::array<%s,%d> arr; for(int i=0;i<%d;i++) arr[i]=p[i]; %s x(arr, ColumnMajor); r = x; }' % (ct, tt, ct, n, n, tt)
        m = list(range(n))
        if cm:
            for idx in multi_indices(dims):
                m[flat(idx, dims)] = colmajor_off(idx, dims)
    elif how == 'array':
        wit = 'extern "C" void @W@(const %s* p, %s& r){ std::array<%s,%d> arr; for(int i=0;i<%d;i++) arr[i]=p[i]; %s x(arr); r = x; }' % (ct, tt, ct, n, n, tt); m = list(range(n))
    elif how == 'initlist':
        def lit(ds, off):
            if len(ds) == 1:
                return '{' + ','.join('p[%d]' % (off + i) for i in range(ds[0])) + '}'
            sub = prod(ds[1:])
            return '{' + ','.join(lit(ds[1:], off + i * sub) for i in range(ds[0])) + '}'
        wit = 'extern "C" void @W@(const %s* p, %s& r){ %s x = %s; r = x; }' % (ct, tt, tt, lit(dims, 0)); m = list(range(n))
    return Witness('ctor_%s_%s_%s' % (how, t, 'x'.join(map(str, dims))), 'ctor.' + how, {'type': t, 'dims': list(dims), 'how': how}, wit, '', [rreg('p', t, n, role='in', init='sym'), treg('r', t, dims, 'out')],
                   [{'mod': 'wit', 'fn': '@W@', 'args': ['p', 'r']}], [{'kind': 'copy', 'region': 'r', 'ns': 'p', 'map': m}])


def witnesses(tier, seed):
    quick = tier == 'quick'
    rng = random.Random(seed * 1049 + 20)
    T3 = ['f64', 'f32', 'i32']
    W = []
    top = 3 if quick else 4
    k = 0
    for rank in (1, 2, 3, 4):
        for dims in itertools.product(range(1, top + 1), repeat=rank):
            if rank == 4 and quick and sum(dims) % 3:
                continue
            k += 1
            t = T3[k % 3]
            for fn in ('tocolumnmajor', 'torowmajor', 'roundtrip', 'roundtrip2'):
                W.append(mk_layout(t, list(dims), fn))
    for dims in ([5, 7], [8, 9], [2, 5, 7], [16, 17]):
        for t in T3 + ['c64']:
            for fn in ('tocolumnmajor', 'torowmajor', 'roundtrip'):
                W.append(mk_layout(t, dims, fn))
    sizes = [[1], [3], [4], [7], [8], [9], [16], [17], [33], [2, 3], [4, 4], [3, 5], [2, 3, 4]] + ([] if quick else [[5], [12], [31], [32], [5, 8], [8, 8], [2, 2, 2, 3]])
    for dims in sizes:
        for t in T3 + (['i64'] if not quick else []):
            for kind in ('assign_expr', 'iadd', 'imul_scalar', 'isub_expr', 'self_expr', 'fill', 'ones', 'zeros', 'iota', 'iadd_int', 'isub_int', 'imul_int', 'idiv_int', 'idiv_lit'):
                W.append(mk_map_op(t, dims, kind))
            for kind in ('expr', 'copy', 'sum'):
                W.append(mk_map_read(t, dims, kind))
    k = 0
    for dims in [[3], [4], [7], [9], [17], [2, 3], [4, 4], [2, 3, 3]] + ([] if quick else [[1], [8], [16], [33], [3, 5]]):
        for dst in ('map', 'tensor', 'flatmap'):
            for op in MAP_OPS:
                for src in ('scalar', 'tensor', 'map', 'expr', 'mapexpr'):
                    if dst == 'tensor' and src in ('scalar', 'tensor', 'expr'):
                        continue      # no map involved: C02/C05 territory
                    if dst != 'tensor' and src == 'scalar' and op == '=':
                        continue      # TensorMap has no operator=(scalar) in any configuration (fill() is covered above)
                    k += 1
                    W.append(mk_map_matrix(T3[k % 3], list(dims), dst, op, src))
    for dims in ([9], [17], [4, 7]):
        for kind in ('seq', 'fseq', 'mask'):
            for op in MAP_OPS:
                for src in ('scalar', 'tensor'):
                    k += 1
                    W.append(mk_map_view(T3[k % 3], list(dims), kind, op, src))
    for (M, N) in [(2, 2), (3, 3), (4, 4), (5, 4), (3, 8), (8, 8), (9, 5)]:
        for t in ('f64', 'f32'):
            W.append(mk_map_read(t, [M, N], 'matmul'))
    for dims, news in [([2, 6], [[3, 4], [12], [2, 2, 3], [6, 2]]), ([4, 4], [[2, 8], [16], [2, 2, 4]]), ([3, 5], [[5, 3], [15]]), ([2, 3, 4], [[6, 4], [4, 6], [24], [2, 12]]), ([17], [[17, 1], [1, 17]])]:
        for nd in news:
            for t in T3:
                W.append(mk_alias(t, dims, 'reshape', nd))
        for t in T3:
            W.append(mk_alias(t, dims, 'flatten'))
    for dims in ([1, 5], [3, 1, 4], [1, 1, 7], [2, 1, 1, 3], [4, 1]):
        for t in T3:
            W.append(mk_alias(t, dims, 'squeeze'))
    for dims in ([5], [2, 3], [3, 4], [2, 3, 2], [2, 2, 2, 2], [9], [4, 5], [3, 1, 2], [2, 3, 4]):
        for t in T3:
            for how in ('pointer', 'pointer_colmajor', 'array', 'array_colmajor', 'vector', 'vector_colmajor', 'initlist'):
                W.append(mk_ctor(t, dims, how))
    # complex element types (explicit (re,im) references)
    import cplx_common
    W += cplx_common.cplx_witnesses('map', tier)
    return group_sort(W)


def check(tier, seed):
    R = Runner('C20', tier, seed)
    try:
        R.run_all(witnesses(tier, seed), [Config(isa) for isa in ALL_ISAS], chunk=50)
        return finish('C20', tier, seed, R, 'other',
                      rule='(i) an operation applied through TensorMap<T,...>(buf) over a raw buffer that is only alignof(T)-aligned must leave the buffer in exactly the state plain element-wise loops leave it in (writes through the map, maps as operands, reductions and matmul over maps); every alignment-requiring access to the buffer is a violation, which decides all 64 misalignments at once; (ii) reshape/flatten/squeeze: a fixed interleaving of writes through the returned map and through the source tensor must equal the same sequence on one flat array (the map aliases the source storage); (iii) tocolumnmajor places element (i0..ik) at the column-major offset, torowmajor is its inverse, both compositions are the identity copy map — all shapes with extents <= 3 (thorough 4) of ranks 1-4 plus larger shapes; (iv) constructors from a raw buffer (row- and column-major), std::array and nested initializer lists store the given values row-major (copy-flow).',
                      trusted=['clang-14 front end and -O2 code generation', 'LLVM IR semantics as modelled by irflow', 'x86 lane table', 'offset oracles in gen/c20.py'],
                      floors=load_floors('C20', tier), uniform_reject_ok=True, assumptions=['random operation sequences are replaced by a fixed interleaving of five operations', 'slices and masks of a TensorMap that the library rejects at compile time under every configuration (mask views of a map, compound assignment of a tensor to a dynamic slice of a map) are counted, not judged'])
    finally:
        R.cleanup()
