# C07 — no operation touches memory outside its operands, for any shape or alignment; no dynamic allocation (DESIGN.md §5 C07)
from core import *
from c04 import group_sort
import c01, c04, c05, c14, c16, c17, c19, c20, c03, c02
import itertools, re, subprocess

ALLOC_QUERY = r'''
set output diag
set bind-root true
match cxxNewExpr(isExpansionInFileMatching("@SCOPE@"), unless(isExpansionInFileMatching("/Fastor/(util|simd_math)/")))
match callExpr(isExpansionInFileMatching("@SCOPE@"), unless(isExpansionInFileMatching("/Fastor/(util|simd_math)/")), callee(functionDecl(hasAnyName("malloc","calloc","realloc","posix_memalign","aligned_alloc","_mm_malloc","memalign","valloc","operator new","operator new[]"))))
match varDecl(isExpansionInFileMatching("@SCOPE@"), unless(isExpansionInFileMatching("/Fastor/(util|simd_math)/|TensorIO.h")), unless(parmVarDecl()), unless(hasAncestor(functionDecl(hasAnyName("operator<<","tovector","print","itoa")))), hasType(hasUnqualifiedDesugaredType(recordType(hasDeclaration(classTemplateSpecializationDecl(hasAnyName("::std::vector","::std::basic_string","::std::map","::std::set","::std::deque","::std::list","::std::function","::std::shared_ptr","::std::unique_ptr","::std::basic_stringstream","::std::basic_ostringstream","::std::unordered_map","::std::unordered_set")))))))
match cxxConstructExpr(isExpansionInFileMatching("@SCOPE@"), unless(isExpansionInFileMatching("/Fastor/(util|simd_math)/|TensorIO.h")), unless(hasAncestor(functionDecl(hasAnyName("operator<<","tovector","print","itoa")))), unless(hasAncestor(varDecl())), hasType(hasUnqualifiedDesugaredType(recordType(hasDeclaration(classTemplateSpecializationDecl(hasAnyName("::std::vector","::std::basic_string","::std::map","::std::set","::std::deque","::std::list","::std::function","::std::shared_ptr","::std::unique_ptr","::std::basic_stringstream","::std::unordered_map")))))))
'''


def r_alloc(tmp, cfgs):
    """R-ALLOC over the type-checked AST of Fastor.h (uninstantiated templates included) under every configuration"""
    viol, obl, ok, report = [], 0, 0, []
    src = os.path.join(tmp, 'ralloc.cpp')
    open(src, 'w').write('#include <Fastor/Fastor.h>\n#include "%s"\n' % os.path.join(VERIF, 'selftest', 'alloc_positive.h'))
    def one(job):
        cfg, scope, name = job
        q = os.path.join(tmp, 'q_%s_%s.cq' % (cfg.key(), name))
        open(q, 'w').write(ALLOC_QUERY.replace('@SCOPE@', scope))
        p = run(['clang-query-14', '-f', q, src, '--'] + cfg.flags() + ['-I' + REPO, '-Wno-everything'])
        locs = re.findall(r'^(/[^:\n]+:\d+:\d+): note: "root" binds here', p.stdout, re.M)
        errs = 'error:' in p.stderr or 'error:' in p.stdout
        return cfg, name, locs, errs, p.stdout[-300:] + p.stderr[-300:]
    jobs = []
    for cfg in cfgs:
        jobs.append((cfg, '/Fastor/', 'repo'))
        jobs.append((cfg, 'selftest/alloc_positive', 'control'))
    with ThreadPoolExecutor(max_workers=JOBS) as ex:
        for cfg, name, locs, errs, tail in ex.map(one, jobs):
            obl += 1
            if errs:
                report.append('clang-query failed under %s: %s' % (cfg.key(), tail)); continue
            if name == 'control':
                if len(set(locs)) >= 3:
                    ok += 1
                else:
                    report.append('positive control matched only %d constructs under %s (rule broken)' % (len(set(locs)), cfg.key()))
            else:
                if not locs:
                    ok += 1
                for l in sorted(set(locs)):
                    viol.append(({'id': 'R-ALLOC', 'family': 'r-alloc', 'params': {}, 'config': cfg.key(), 'isa': cfg.isa}, {'kind': 'allocation-construct', 'where': l, 'detail': 'dynamic allocation (new / malloc family / allocating std container) in library code outside the text-output and std::vector-conversion allow-list'}))
    return viol, obl, ok, report


def mk_bounds(t, dims, idx, write):
    ct = CTYPE[t]
    argn = ['p%d' % k for k in range(len(dims))]
    inrange = all(-n <= i < n for i, n in zip(idx, dims))
    norm = [i + n if i < 0 else i for i, n in zip(idx, dims)]
    if not write:
        wit = 'extern "C" void @W@(const %s& a, %s* r%s){ *r = a(%s); }' % (tensor_t(t, dims), ct, ''.join(', int %s' % a for a in argn), ','.join(argn))
        regions = [treg('a', t, dims), rreg('r', t, 1, role='out')]
        obl = [{'kind': 'copy', 'region': 'r', 'ns': 'a', 'map': [flat(norm, dims)]}] if inrange else []
        stages = [{'mod': 'wit', 'fn': '@W@', 'args': ['a', 'r'] + [{'int': i} for i in idx]}]
    else:
        wit = 'extern "C" void @W@(%s& a, %s s%s){ a(%s) = s; }' % (tensor_t(t, dims), ct, ''.join(', int %s' % a for a in argn), ','.join(argn))
        regions = [treg('a', t, dims, 'inout'), rreg('s', t, 1, role='in', init='sym')]
        obl = []
        stages = [{'mod': 'wit', 'fn': '@W@', 'args': ['a', {'scalar': 's'}] + [{'int': i} for i in idx]}]
    extra = {} if inrange else {'expect_abnormal': True}
    if inrange:
        obl.append({'kind': 'nothrow'})
    return Witness('bounds_%s_%s_%s_%s' % ('wr' if write else 'rd', t, 'x'.join(map(str, dims)), '_'.join(map(str, idx))), 'bounds.' + ('in' if inrange else 'out'), {'type': t, 'dims': list(dims), 'index': list(idx), 'inrange': inrange, 'write': write},
                   wit, '', regions, stages, obl, extra=extra)


def bounds_witnesses(tier):
    W = []
    for dims in ([5], [3, 4], [2, 3, 2], [2, 2, 2, 3], [2, 2, 2, 2, 2]) + (() if tier == 'quick' else ([9], [4, 4], [2, 2, 2, 2, 2, 2])):
        rng = [range(-n - 2, n + 2) for n in dims]
        alli = list(itertools.product(*rng))
        if len(alli) > (300 if tier == 'quick' else 2000):
            import random
            alli = random.Random(7).sample(alli, 300 if tier == 'quick' else 2000)
        for k, idx in enumerate(alli):
            W.append(mk_bounds(['f64', 'f32', 'i32'][k % 3], list(dims), idx, write=(k % 4 == 0)))
    return W


def map_witnesses(tier):
    """operands wrapped by TensorMap over raw buffers of exactly size()*sizeof(T) bytes and alignment alignof(T)"""
    W = []
    sizes = [[n] for n in range(1, 20)] + [[2, 3], [3, 3], [4, 4], [3, 5], [5, 7], [2, 3, 4], [8, 8], [9, 9]]
    for dims in sizes:
        for t in ('f64', 'f32', 'i32', 'i64'):
            for kind in ('assign_expr', 'iadd', 'imul_scalar', 'self_expr', 'fill', 'ones', 'zeros', 'iota', 'iadd_int', 'isub_int', 'imul_int', 'idiv_int', 'idiv_lit'):
                W.append(c20.mk_map_op(t, dims, kind))
            for kind in ('expr', 'copy', 'sum'):
                W.append(c20.mk_map_read(t, dims, kind))
    for (M, N) in [(m, n) for m in (1, 2, 3, 4, 5, 7, 8, 9) for n in (1, 2, 3, 4, 5, 7, 8, 9, 15, 16, 17)] + ([] if tier == 'quick' else [(m, n) for m in (12, 13) for n in (12, 31, 33)]):
        for t in ('f64', 'f32', 'i32'):
            W.append(c20.mk_map_read(t, [M, N], 'matmul'))
    return W


def check(tier, seed):
    R = Runner('C07', tier, seed)
    try:
        cfgs = [Config(isa) for isa in ALL_ISAS]
        # (1) R-ALLOC over the whole AST
        viol, obl, ok, report = r_alloc(R.tmp, cfgs + [Config('sse2', std='gnu++14'), Config('avx2', ndebug=False)])
        for s in report:
            R.broken.append(s)
        # (2) footprint / alignment / allocation monitor over slices of every other corpus
        step = 20 if tier == "quick" else 6
        W = []
        for mod in (c01, c02, c03, c04, c05, c14, c16, c17, c19):
            ws = mod.witnesses(tier, seed) if mod is not c03 else mod.witnesses(tier, seed, 'gnu++17')
            ws = [w for w in ws if not (w.params or {}).get('or_group') and not in_open_finding_family(w)]      # alternatives are judged as groups in their own property
            W += ws[seed % step::step]
        W += map_witnesses(tier)
        R.run_all(group_sort(W), cfgs, chunk=80)
        # (2b) the alignment clause as the SOURCE states it: after unrolling, clang -O2 may re-derive a vector access and drop the
        # alignment the intrinsic demanded (an aligned load directly followed by an unaligned store to the same address comes out as
        # two unaligned accesses), which other compilers do not do.  At -O1 every vector access still carries the alignment of the
        # intrinsic that issued it, so the TensorMap corpus (buffers aligned to alignof(T) only) is interpreted at -O1 as well.
        R.run_all(group_sort(map_witnesses(tier)), [Config(isa, opt='-O1') for isa in ('sse2', 'avx2', 'avx512')], chunk=80)
        # (3) runtime bounds checks: out-of-range indices must raise an error before touching memory
        chk = [Config(isa, macros=('FASTOR_ENABLE_RUNTIME_CHECKS=1',)) for isa in ('sse2', 'avx2', 'avx512')] + [Config('sse2', ndebug=False)]
        R.run_all(group_sort(bounds_witnesses(tier)), chk, chunk=120)
        return finish('C07', tier, seed, R, 'proof',
                      rule='(1) R-ALLOC: clang-query over the type-checked AST of Fastor.h (template definitions included) under every ISA configuration — no new-expression, no call to an allocation function, no construction of an allocating std container in library code outside the allow-list (text output operator<<, tovector, util/, simd_math/); a planted positive control must match on every run. (2) the standing obligations of irflow (every load inside a declared region with masked lanes excluded, every store inside an out/inout region, alignment of each access justified by region alignment and offset, no allocation call on a normal path) over a slice of every other property corpus plus operands wrapped by TensorMap over raw buffers of exactly size()*sizeof(T) bytes and alignment alignof(T) only (decides all 64 misalignments and all over-read idioms at once, incl. matmul remainders). (3) with FASTOR_ENABLE_RUNTIME_CHECKS=1 (and without NDEBUG) scalar indexing with every index tuple in [-n-2, n+1]^rank: out-of-range tuples must reach the error exit with no out-of-region access before it, in-range tuples must not raise and must read/write the right cell.',
                      trusted=['clang-14 front end, AST matchers and -O2 code generation', 'LLVM IR semantics as modelled by irflow', 'x86 lane table'],
                      floors=load_floors('C07', tier), assumptions=['stack usage is not analysed', 'operations outside the corpora are covered by R-ALLOC only'],
                      extra_viol=viol, extra_obl=(obl, ok))
    finally:
        R.cleanup()
