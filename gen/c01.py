# C01 — matrix product equals the mathematical product (DESIGN.md §5 C01)
from core import *
import random

SIMD_WIDTHS = {'f32': [4, 8, 16], 'f64': [2, 4, 8], 'i32': [4, 8, 16], 'i64': [2, 4, 8], 'c64': [2, 4, 8], 'c128': [1, 2, 4]}


def tensor(t, *dims):
    return 'Tensor<%s,%s>' % (CTYPE[t], ','.join(map(str, dims)))


def ref_matmul(t, M, K, N):
    """the mathematical product, written from the property statement, on raw cell arrays"""
    ct = CTYPE[CELL[t][0]] if t not in ('i32', 'i64') else CTYPE[t]
    if CELL[t][1] == 1:
        return ('extern "C" void @R@(const %s* a, const %s* b, %s* c){ for(int i=0;i<%d;i++) for(int j=0;j<%d;j++){ %s s=0; for(int k=0;k<%d;k++) s += a[i*%d+k]*b[k*%d+j]; c[i*%d+j]=s; } }'
                % (ct, ct, ct, M, N, ct, K, K, N, N))
    return ('extern "C" void @R@(const %s* a, const %s* b, %s* c){ for(int i=0;i<%d;i++) for(int j=0;j<%d;j++){ %s re=0, im=0; for(int k=0;k<%d;k++){ %s ar=a[2*(i*%d+k)], ai=a[2*(i*%d+k)+1], br=b[2*(k*%d+j)], bi=b[2*(k*%d+j)+1]; re += ar*br - ai*bi; im += ar*bi + ai*br; } c[2*(i*%d+j)]=re; c[2*(i*%d+j)+1]=im; } }'
            % (ct, ct, ct, M, N, ct, K, ct, K, K, N, N, N, N))


def mk(t, M, K, N, form):
    cell, per = CELL[t]
    if form == 'matvec':      # A(MxK) * v(K)
        ta, tb, tc = tensor(t, M, K), tensor(t, K), tensor(t, M); N = 1
        body = 'c = matmul(a,b);'
    elif form == 'vecmat':    # v(K) * B(KxN)
        ta, tb, tc = tensor(t, K), tensor(t, K, N), tensor(t, N); M = 1
        body = 'c = matmul(a,b);'
    elif form == 'lazy':
        ta, tb, tc = tensor(t, M, K), tensor(t, K, N), tensor(t, M, N)
        body = 'c = a % b;'
    else:
        ta, tb, tc = tensor(t, M, K), tensor(t, K, N), tensor(t, M, N)
        body = 'c = matmul(a,b);'
    wit = 'extern "C" void @W@(const %s& a, const %s& b, %s& c){ %s }' % (ta, tb, tc, body)
    regions = [
        {'name': 'a', 'ety': cell, 'cells': M * K * per, 'kind': 'tensor', 'role': 'in'},
        {'name': 'b', 'ety': cell, 'cells': K * N * per, 'kind': 'tensor', 'role': 'in'},
        {'name': 'c', 'ety': cell, 'cells': M * N * per, 'kind': 'tensor', 'role': 'out', 'init': 'undef'},
        {'name': 'cref', 'ety': cell, 'cells': M * N * per, 'kind': 'raw', 'role': 'scratch', 'init': 'undef'},
    ]
    stages = [{'mod': 'wit', 'fn': '@W@', 'args': ['a', 'b', 'c']}, {'mod': 'ref', 'fn': '@R@', 'args': ['a', 'b', 'cref']}]
    obl = [{'kind': 'equal', 'a': 'c', 'b': 'cref', 'cells': M * N * per, 'mode': 'ALG'}]
    if per == 1:
        obl.append({'kind': 'premise_bilinear_once', 'region': 'c', 'cells': M * N, 'max_mul': K})
    return Witness('mm_%s_%s_%d_%d_%d' % (form, t, M, K, N), 'matmul.' + form, {'type': t, 'M': M, 'K': K, 'N': N, 'form': form}, wit, ref_matmul(t, M, K, N), regions, stages, obl)


def boundary(t, kmax=5):
    s = set()
    for w in SIMD_WIDTHS[t]:
        for k in range(1, kmax + 1):
            s.update([k * w - 1, k * w, k * w + 1])
    return sorted(x for x in s if x >= 1)


def blocked_shapes(t):
    """every (row block class) x (column block class) of the two blocked kernels (_matmul_base with a scalar column remainder,
    _matmul_base_masked with a masked one), which are only reached for N > 5 SIMD widths: rows are processed in blocks of 12 / 8 / 4
    (M % 12 == 0 / M >= 2 widths / else), then single blocks of 4, then the last M % 4 rows; columns in blocks of 2 widths, then of
    one width, then the remainder N % width (<= 1: scalar loop, > 1: masked).  One shape per class and SIMD width."""
    S = set()
    for V in SIMD_WIDTHS[t]:
        Ns = [5 * V + 1, 5 * V + 2, 6 * V + 3 if V >= 4 else 6 * V + 1, 8 * V - 1]
        Ms = [5, 13, 2 * V + 5, 24, 2 * V + 12 + (0 if (2 * V + 12) % 12 else 4)]
        for N in Ns:
            for M in Ms:
                S.add((M, 2, N))
        n3 = 3 * V                      # the three-vector-wide interior block: M and N multiples of 3 widths, N > 24
        while n3 <= 24:
            n3 += 3 * V
        S.add((3 * V, 3, n3)); S.add((6 * V, 2, n3))
    return S


def shapes(t, tier, rng):
    S = set()
    if tier == 'quick':
        box = 5 if t in ('f32', 'f64', 'i32') else 3
        for M in range(1, box + 1):
            for K in range(1, box + 1):
                for N in range(1, box + 1):
                    S.add((M, K, N))
        bn = [n for n in boundary(t, 3) if n <= 49]
        Ms = [1, 3, 4, 5, 8] if t in ('f32', 'f64', 'i32') else [1, 4, 5]
        Ks = [1, 4, 7] if t in ('f32', 'f64', 'i32') else [3]
        for N in bn:
            for M in Ms:
                for K in Ks:
                    S.add((M, K, N))
        for M in (9, 13, 16, 17):
            S.add((M, 5, M)); S.add((M, M, 3))
        # every row-remainder class of the hand-unrolled small-N kernels (blocks of 10, 5 and 4 rows) and the interior blocks of the
        # blocked kernel (coverage accounting showed these unreached): all M in 1..21 against N below, at, and at small multiples of a width
        if t in ('f32', 'f64', 'i32'):
            for M in range(6, 22):
                for N in (2, 3, 4, 7, 8, 16):
                    S.add((M, 2, N))
            for (M, K, N) in [(12, 5, 16), (16, 16, 16), (20, 3, 24), (9, 9, 33), (10, 4, 40), (12, 3, 64), (7, 2, 80)]:
                S.add((M, K, N))
            S.update(blocked_shapes(t))
    else:
        box = 10 if t in ('f32', 'f64', 'i32') else 6
        for M in range(1, box + 1):
            for K in range(1, box + 1):
                for N in range(1, box + 1):
                    S.add((M, K, N))
        for N in [n for n in boundary(t, 5) if n <= 81]:
            for M in [1, 2, 3, 4, 5, 8, 9, 12, 13, 16, 17, 24, 25]:
                for K in [1, 3, 4, 8, 9]:
                    S.add((M, K, N))
        for M in range(1, 34):
            S.add((M, M, M))
        if t in ('f32', 'f64', 'i32'):
            S.update(blocked_shapes(t))
    return sorted(S)


def witnesses(tier, seed):
    rng = random.Random(seed)
    types = ['f32', 'f64', 'i32', 'i64', 'c64', 'c128']
    W = []
    for t in types:
        for (M, K, N) in shapes(t, tier, rng):
            W.append(mk(t, M, K, N, 'matmul'))
            if N == 1 and M > 1:
                W.append(mk(t, M, K, 1, 'matvec'))
            if M == 1 and N > 1:
                W.append(mk(t, 1, K, N, 'vecmat'))
        lz = [(2, 2, 2), (3, 3, 3), (4, 4, 4), (5, 4, 9), (8, 8, 8), (3, 7, 5), (1, 6, 1), (6, 1, 6), (4, 1, 1), (1, 1, 7)]
        if tier != 'quick':
            lz += [(M, K, N) for M in (2, 5, 9) for K in (3, 8) for N in (4, 7, 17)]
        for (M, K, N) in lz:
            W.append(mk(t, M, K, N, 'lazy'))
    return W


def configs(tier):
    cs = [Config(isa) for isa in ALL_ISAS]
    return cs


def check(tier, seed):
    R = Runner('C01', tier, seed)
    try:
        W = witnesses(tier, seed)
        R.run_all(W, configs(tier), chunk=60)
        if tier != 'quick':
            # tuning macros on a reduced set
            small = [w for w in W if w.params['type'] in ('f32', 'f64', 'i32') and w.params['form'] == 'matmul' and w.params['M'] in (3, 5, 8) and w.params['K'] in (3, 4)][:400]
            for blk in (1, 2, 3, 4, 5):
                R.run_all(small, [Config(isa, macros=('FASTOR_MATMUL_OUTER_BLOCK_SIZE=%d' % blk, 'FASTOR_MATMUL_INNER_BLOCK_SIZE=%d' % blk)) for isa in ('sse2', 'avx2', 'avx512')], chunk=60)
        return finish('C01', tier, seed, R, 'proof',
                      rule='one witness program per (form, element type, M, K, N, build configuration): c = matmul(a,b) / a %% b / matrix-vector / vector-matrix with all operand cells symbolic; irflow interprets the -O2 IR of the Fastor call and of a naive triple loop and compares every result cell as polynomials over the operand cells (ALGEBRAIC mode), plus footprint, full write coverage of c, no store to a or b, alignment, no allocation, and the op-tree premise of the K*eps*sum|a||b| bound (at most K multiplications per cell, no fast-math flags). Non-trivial = the interpretation built more than 8 terms. Shapes: %s' % ('box(5)/box(3) + boundary sizes around SIMD-width multiples' if tier == 'quick' else 'box(10)/box(6) + full boundary set to N=81, M to 25, diagonals to 33, block-size macros 1..5'),
                      trusted=['clang-14 front end and -O2 code generation', 'LLVM IR semantics as modelled by irflow', 'x86 lane table in tools/irflow/calls.cc', 'reference loops emitted by gen/c01.py from the property statement'],
                      floors=load_floors('C01', tier), assumptions=['operand values are not NaN (libstdc++ complex-multiply fallback resolved on that assumption)', 'shapes outside the enumerated set are not explored'])
    finally:
        R.cleanup()
