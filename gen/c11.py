# C11 — LU factors are triangular and reproduce the matrix (exact-arithmetic clause; DESIGN.md §5 C11, §6)
from core import *
from linalg_common import *
from c04 import group_sort
import itertools


def mk(t, n, strat, band=None):
    ct = CTYPE[t]
    tt = tensor_t(t, [n, n])
    wit = 'extern "C" void @W@(const %s& A, %s& L, %s& U){ lu<LUCompType::%s>(A, L, U); }' % (tt, tt, tt, strat)
    ref = pre_ldu(ct, n, band) + '\n' + expect_lu(ct, n, band)
    regions = ldu_regions(t, n) + [treg('A', t, [n, n], 'in', init='undef'), treg('L', t, [n, n], 'out'), treg('U', t, [n, n], 'out'), rreg('Le', t, n * n), rreg('Ue', t, n * n)]
    stages = [{'mod': 'ref', 'fn': '@R@pre', 'args': ['lam', 'del', 'mu', 'A']}, {'mod': 'wit', 'fn': '@W@', 'args': ['A', 'L', 'U']}, {'mod': 'ref', 'fn': '@R@exp', 'args': ['lam', 'del', 'mu', 'Le', 'Ue']}]
    # uniqueness of the factorisation: L must be lam and U must be del*mu, cell by cell
    obl = [{'kind': 'equal', 'a': 'L', 'b': 'Le', 'cells': n * n, 'mode': 'ALG'}, {'kind': 'equal', 'a': 'U', 'b': 'Ue', 'cells': n * n, 'mode': 'ALG'}]
    return Witness('lu_%s_%s_%d%s' % (t, strat, n, band_tag(band)), 'lu.' + strat + ('.banded' if isinstance(band, int) else ('.' + band if band else '.full')), {'type': t, 'n': n, 'strategy': strat, 'band': band}, wit, ref, regions, stages, obl,
                   extra={'poly_cap': 600000, 'max_steps': 300000000})


def mk_structure(t, n, strat):
    """plain symbolic input: exact zeros in the opposite triangles, exact ones on L's diagonal, causal dependence"""
    tt = tensor_t(t, [n, n])
    wit = 'extern "C" void @W@(const %s& A, %s& L, %s& U){ lu<LUCompType::%s>(A, L, U); }' % (tt, tt, tt, strat)
    upper = [i * n + j for i in range(n) for j in range(n) if i < j]
    lower = [i * n + j for i in range(n) for j in range(n) if i > j]
    diag = [i * n + i for i in range(n)]
    obl = [{'kind': 'const', 'region': 'L', 'cells': upper, 'value': 0}, {'kind': 'const', 'region': 'L', 'cells': diag, 'value': 1, 'mode': 'EXACTDIV'}, {'kind': 'const', 'region': 'U', 'cells': lower, 'value': 0}]
    # U[i,j] depends at least on rows 0..i x (cols 0..i-1 and j); L[i,j] on rows 0..j and i x cols 0..j
    for (i, j) in [(n - 1, n - 1), (n // 2, n - 1)]:
        need = sorted(set(r * n + c for r in range(i + 1) for c in list(range(i)) + [j]))
        obl.append({'kind': 'depends', 'region': 'U', 'cell': i * n + j, 'ns': 'A', 'cells': need})
    if n > 1:
        i, j = n - 1, (n - 1) // 2
        need = sorted(set(r * n + c for r in list(range(j + 1)) + [i] for c in range(j + 1)))
        obl.append({'kind': 'depends', 'region': 'L', 'cell': i * n + j, 'ns': 'A', 'cells': need})
    if t == 'f64':
        obl += [{'kind': 'no_narrowing', 'region': 'L', 'cells': n * n}, {'kind': 'no_narrowing', 'region': 'U', 'cells': n * n}]
    return Witness('lustruct_%s_%s_%d' % (t, strat, n), 'lu.' + strat + '.structure', {'type': t, 'n': n, 'strategy': strat}, wit, '', [treg('A', t, [n, n]), treg('L', t, [n, n], 'out'), treg('U', t, [n, n], 'out')],
                   [{'mod': 'wit', 'fn': '@W@', 'args': ['A', 'L', 'U']}], obl)


def mk_reconstruct(t, n, perm, enc):
    """reconstruct(L,U,P) / apply_pivot for a constant permutation: row P(i) of the result is row i of L*U"""
    ct = CTYPE[t]
    tt = tensor_t(t, [n, n])
    if enc == 'V':
        wit = 'extern "C" void @W@(const %s& L, const %s& U, const Tensor<size_t,%d>& P, %s& R){ R = reconstruct(L, U, P); }' % (tt, tt, n, tt)
        preg = {'name': 'P', 'ety': 'i64', 'cells': n, 'kind': 'tensor', 'role': 'in', 'init': 'ints', 'ints': list(perm)}
    else:
        wit = 'extern "C" void @W@(const %s& L, const %s& U, const %s& P, %s& R){ R = reconstruct(L, U, P); }' % (tt, tt, tt, tt)
        pm = [1 if perm[i] == j else 0 for i in range(n) for j in range(n)]
        preg = {'name': 'P', 'ety': CELL[t][0], 'cells': n * n, 'kind': 'tensor', 'role': 'in', 'init': 'fps', 'fps': [float(x) for x in pm]}
    ref = 'extern "C" void @R@(const %s* L, const %s* U, %s* R){ static const int p[%d]={%s}; for(int i=0;i<%d;i++) for(int j=0;j<%d;j++){ %s s=0; for(int k=0;k<%d;k++) s+=L[i*%d+k]*U[k*%d+j]; R[p[i]*%d+j]=s; } }' % (ct, ct, ct, n, ','.join(map(str, perm)), n, n, ct, n, n, n, n)
    regions = [treg('L', t, [n, n]), treg('U', t, [n, n]), preg, treg('R', t, [n, n], 'out'), rreg('Rref', t, n * n)]
    return Witness('recon_%s_%s_%d_%s' % (t, enc, n, ''.join(map(str, perm))), 'lu.reconstruct.' + enc, {'type': t, 'n': n, 'perm': list(perm), 'enc': enc}, wit, ref, regions,
                   [{'mod': 'wit', 'fn': '@W@', 'args': ['L', 'U', 'P', 'R']}, {'mod': 'ref', 'fn': '@R@', 'args': ['L', 'U', 'Rref']}], [{'kind': 'equal', 'a': 'R', 'b': 'Rref', 'cells': n * n, 'mode': 'ALG'}])


def mk_pivoted(t, n, strat, enc, arg='tensor'):
    """lu<...Piv>(A,L,U,P) end to end on A = L(lam)D(del)U(mu): in every case of the symbolic pivot search L is unit lower, U upper,
    P is a bijection (vector) / permutation matrix, and reconstruct(L,U,P) gives back A"""
    ct = CTYPE[t]; tt = tensor_t(t, [n, n])
    Pt = 'Tensor<size_t,%d>' % n if enc == 'V' else tt
    wit = 'extern "C" void @W@(const %s& A, %s& L, %s& U, %s& P, %s& R){ lu<LUCompType::%s>(%s, L, U, P); R = reconstruct(L, U, P); }' % (tt, tt, tt, Pt, tt, strat, 'A' if arg == 'tensor' else 'A+0')   # expression operands take separate overloads (evaluate, then pivot the temporary)
    if enc == 'V':
        post = 'extern "C" void @R@post(const %s* A, const %s* R, const unsigned long* P, %s* D, long* Q){ for(int i=0;i<%d;i++) D[i] = R[i] - A[i]; for(int i=0;i<%d;i++){ long c=0; for(int j=0;j<%d;j++) c += (P[j]==(unsigned long)i); Q[i] = c - 1; } }' % (ct, ct, ct, n * n, n, n)
        preg = {'name': 'P', 'ety': 'i64', 'cells': n, 'kind': 'tensor', 'role': 'out', 'init': 'undef'}
        qreg = {'name': 'Q', 'ety': 'i64', 'cells': n, 'kind': 'raw', 'role': 'scratch', 'init': 'undef'}
        qn = n
    else:
        post = ('extern "C" void @R@post(const %s* A, const %s* R, const %s* P, %s* D, %s* Q){ for(int i=0;i<%d;i++) D[i] = R[i] - A[i]; for(int i=0;i<%d;i++) for(int j=0;j<%d;j++){ %s s=0; for(int k=0;k<%d;k++) s += P[i*%d+k]*P[j*%d+k]; Q[i*%d+j] = s - (i==j?1:0); } }'
                % (ct, ct, ct, ct, ct, n * n, n, n, ct, n, n, n, n))
        preg = treg('P', t, [n, n], 'out')
        qreg = rreg('Q', t, n * n)
        qn = n * n
    ref = pre_ldu(ct, n) + '\n' + post
    regions = ldu_regions(t, n) + [treg('A', t, [n, n], 'in', init='undef'), treg('L', t, [n, n], 'out'), treg('U', t, [n, n], 'out'), preg, treg('R', t, [n, n], 'out'), rreg('D', t, n * n), qreg]
    stages = [{'mod': 'ref', 'fn': '@R@pre', 'args': ['lam', 'del', 'mu', 'A']}, {'mod': 'wit', 'fn': '@W@', 'args': ['A', 'L', 'U', 'P', 'R']}, {'mod': 'ref', 'fn': '@R@post', 'args': ['A', 'R', 'P', 'D', 'Q']}]
    upper = [i * n + j for i in range(n) for j in range(n) if i < j]
    lower = [i * n + j for i in range(n) for j in range(n) if i > j]
    diag = [i * n + i for i in range(n)]
    obl = [{'kind': 'zero', 'region': 'D', 'cells': n * n}, {'kind': 'zero', 'region': 'Q', 'cells': qn},
           {'kind': 'const', 'region': 'L', 'cells': upper, 'value': 0}, {'kind': 'const', 'region': 'L', 'cells': diag, 'value': 1, 'mode': 'EXACTDIV'}, {'kind': 'const', 'region': 'U', 'cells': lower, 'value': 0}]
    return Witness('lupiv_%s_%s_%s_%d%s' % (t, strat, enc, n, '' if arg == 'tensor' else '_expr'), 'lu.' + strat + '.pivoted.' + enc + ('' if arg == 'tensor' else '.expr'), {'type': t, 'n': n, 'strategy': strat, 'enc': enc, 'arg': arg}, wit, ref, regions, stages, obl,
                   extra={'poly_cap': 600000, 'max_steps': 300000000, 'max_ms': 400000})


def witnesses(tier, seed):
    quick = tier == 'quick'
    W = []
    for t in ('f64', 'f32'):
        for strat in ('BlockLU', 'SimpleLU'):
            for n in ([1, 2, 3, 4, 5, 6, 7, 8, 9] if quick else list(range(1, 13)) + [16, 17]):
                if t == 'f32' and quick and n > 5 and n != 9:
                    continue
                W.append(mk(t, n, strat))
            for n in ([12, 16, 17, 33, 40, 65] if quick else [12, 16, 17, 32, 33, 40, 64, 65]):
                if t == 'f32' and quick and n != 17:
                    continue
                W.append(mk(t, n, strat, band=1))
                if quick or n <= 40 or t == 'f64':
                    W.append(mk(t, n, strat, band='arrow')); W.append(mk(t, n, strat, band='arrow1')); W.append(mk(t, n, strat, band='hub'))
            for n in (1, 2, 3, 4, 5, 8, 9, 12, 16, 17):
                W.append(mk_structure(t, n, strat))
    W += pivot_helper_witnesses(['recon_vec', 'recon_mat', 'apply_mat', 'apply_vec', 'recon2'], tier)
    for t in ('f64', 'f32'):
        for strat in ('SimpleLUPiv', 'BlockLUPiv'):
            for enc in ('V', 'M'):
                for n in [1, 2, 3]:   # n = 4 exceeds the case-split budget (24 pivot orders x 4x4 Laurent polynomials): measured, dropped
                    if t == 'f32' and n > (2 if quick else 3):
                        continue
                    W.append(mk_pivoted(t, n, strat, enc))
                    if t == 'f64' and n >= 2:
                        W.append(mk_pivoted(t, n, strat, enc, arg='expr'))
    return group_sort(W)


def check(tier, seed):
    R = Runner('C11', tier, seed)
    try:
        cfgs = [Config(isa) for isa in (ALL_ISAS if tier != 'quick' else ['scalar', 'sse2', 'avx', 'avx2', 'avx512'])]
        R.run_all(witnesses(tier, seed), cfgs, chunk=6)
        return finish('C11', tier, seed, R, 'other',
                      rule='exact-arithmetic clause: with the input initialised to A = L(lam) D(del) U(mu) the factors returned by lu<BlockLU|SimpleLU> must normalise to L[i,j] == lam_ij and U[i,j] == del_i mu_ij cell by cell (uniqueness of the LU factorisation gives L*U = A and the triangular structure at once) — full parametrisation n <= 9 (thorough 17), banded to 33 (thorough 65); on plain symbolic input the opposite triangles must be the exact constant 0 and the diagonal of L the exact constant 1, and the syntactic dependence of U[i,j], L[i,j] must contain the minor-based sets.',
                      trusted=['clang-14 front end and -O2 code generation', 'LLVM IR semantics as modelled by irflow', 'x86 lane table', 'reference stages in gen/linalg_common.py'],
                      floors=load_floors('C11', tier),
                      assumptions=['exact (real) arithmetic: the backward-error bound is NOT decided (DESIGN.md §6)', 'pivoted strategies: the pivot search is data-dependent and not analysed; bijection of the permutation is covered by the R-PERMSWAP rule only if astrules is built'],
                      extra_cov={'not_decided': 'floating-point backward error; pivoted forms end to end for n > 3'})
    finally:
        R.cleanup()
