# Parametrised inputs for the factorisation properties C10-C13 (DESIGN.md §3.1 "Laurent extension").
# A = L(lam) * D(del) * U(mu) with unit-triangular symbolic L, U and symbolic diagonal D parametrises every matrix
# with non-singular leading blocks; every divisor of the unpivoted algorithms is then a monomial in del, so exact
# arithmetic correctness is a canonical-form comparison.  The small reference functions below (plain C++, compiled
# separately, interpreted by irflow like any other stage) build the parametrised input and the residuals.
from core import *


def pre_ldu(ct, n, band=None):
    """A = L D U; lam/mu are n*n arrays of which only the strict triangles (within the band) are used"""
    b = band if band is not None else n
    return ('extern "C" void @R@pre(const %s* lam, const %s* del, const %s* mu, %s* A){ for(int i=0;i<%d;i++) for(int j=0;j<%d;j++){ %s s=0; int first=1; for(int k=0;k<=(i<j?i:j);k++){ if(i-k>%d || j-k>%d) continue; %s t = del[k]; if(i!=k) t = lam[i*%d+k]*t; if(j!=k) t = t*mu[k*%d+j]; if(first){ s=t; first=0; } else s = s + t; } A[i*%d+j]=s; } }'
            % (ct, ct, ct, ct, n, n, ct, b, b, ct, n, n, n))


def ldu_regions(t, n, positive=False):
    return [rreg('lam', t, n * n, role='in', init='sym'), rreg('del', t, n, role='in', init='sym', positive=positive), rreg('mu', t, n * n, role='in', init='sym')]


def post_residual(ct, n, name='post'):
    """R1 = A X - I, R2 = X A - I"""
    return ('extern "C" void @R@%s(const %s* A, const %s* X, %s* R1, %s* R2){ for(int i=0;i<%d;i++) for(int j=0;j<%d;j++){ %s s=0, u=0; for(int k=0;k<%d;k++){ s += A[i*%d+k]*X[k*%d+j]; u += X[i*%d+k]*A[k*%d+j]; } R1[i*%d+j] = s - (i==j?1:0); R2[i*%d+j] = u - (i==j?1:0); } }'
            % (name, ct, ct, ct, ct, n, n, ct, n, n, n, n, n, n, n))


def expect_lu(ct, n, band=None):
    b = band if band is not None else n
    return ('extern "C" void @R@exp(const %s* lam, const %s* del, const %s* mu, %s* L, %s* U){ for(int i=0;i<%d;i++) for(int j=0;j<%d;j++){ L[i*%d+j] = (i==j) ? (%s)1 : ((i>j && i-j<=%d) ? lam[i*%d+j] : (%s)0); U[i*%d+j] = (i==j) ? del[i] : ((i<j && j-i<=%d) ? del[i]*mu[i*%d+j] : (%s)0); } }'
            % (ct, ct, ct, ct, ct, n, n, n, ct, b, n, ct, n, b, n, ct))
