# Parametrised inputs for the factorisation properties C10-C13 (DESIGN.md §3.1 "Laurent extension").
# A = L(lam) * D(del) * U(mu) with unit-triangular symbolic L, U and symbolic diagonal D parametrises every matrix
# with non-singular leading blocks; every divisor of the unpivoted algorithms is then a monomial in del, so exact
# arithmetic correctness is a canonical-form comparison.  The small reference functions below (plain C++, compiled
# separately, interpreted by irflow like any other stage) build the parametrised input and the residuals.
from core import *


def _pattern(band, n):
    """sparsity of the strict triangles of L and U: an integer band width, or 'arrow' (dense first column of L / first row of U, the
    rest diagonal: the blocks of A are dense rank-one plus diagonal, which reaches every sub-block of the recursive kernels while
    the Schur complements stay diagonal), or 'arrow1' (arrow plus the first sub/super-diagonal)"""
    if band is None:
        return n, 0
    if band == 'arrow':
        return 0, 1
    if band == 'arrow1':
        return 1, 1
    if band == 'hub':      # arrow1 plus a dense last row of L and last column of U: every column of every triangular sub-block matters
        return 1, 2
    return int(band), 0


def band_tag(band):
    return '' if band is None else ('_' + band if isinstance(band, str) else '_band%d' % band)


def pre_ldu(ct, n, band=None):
    """A = L D U; lam/mu are n*n arrays of which only the strict triangles (within the sparsity pattern) are used"""
    b, ar = _pattern(band, n)
    return ('extern "C" void @R@pre(const %s* lam, const %s* del, const %s* mu, %s* A){ for(int i=0;i<%d;i++) for(int j=0;j<%d;j++){ %s s=0; int first=1; for(int k=0;k<=(i<j?i:j);k++){ if((i-k>%d && !(%d && k==0) && !(%d==2 && i==%d)) || (j-k>%d && !(%d && k==0) && !(%d==2 && j==%d))) continue; %s t = del[k]; if(i!=k) t = lam[i*%d+k]*t; if(j!=k) t = t*mu[k*%d+j]; if(first){ s=t; first=0; } else s = s + t; } A[i*%d+j]=s; } }'
            % (ct, ct, ct, ct, n, n, ct, b, ar, ar, n - 1, b, ar, ar, n - 1, ct, n, n, n))


def ldu_regions(t, n, positive=False):
    return [rreg('lam', t, n * n, role='in', init='sym'), rreg('del', t, n, role='in', init='sym', positive=positive), rreg('mu', t, n * n, role='in', init='sym')]


def post_residual(ct, n, name='post'):
    """R1 = A X - I, R2 = X A - I"""
    return ('extern "C" void @R@%s(const %s* A, const %s* X, %s* R1, %s* R2){ for(int i=0;i<%d;i++) for(int j=0;j<%d;j++){ %s s=0, u=0; for(int k=0;k<%d;k++){ s += A[i*%d+k]*X[k*%d+j]; u += X[i*%d+k]*A[k*%d+j]; } R1[i*%d+j] = s - (i==j?1:0); R2[i*%d+j] = u - (i==j?1:0); } }'
            % (name, ct, ct, ct, ct, n, n, ct, n, n, n, n, n, n, n))


def expect_lu(ct, n, band=None):
    b, ar = _pattern(band, n)
    return ('extern "C" void @R@exp(const %s* lam, const %s* del, const %s* mu, %s* L, %s* U){ for(int i=0;i<%d;i++) for(int j=0;j<%d;j++){ L[i*%d+j] = (i==j) ? (%s)1 : ((i>j && (i-j<=%d || (%d && j==0) || (%d==2 && i==%d))) ? lam[i*%d+j] : (%s)0); U[i*%d+j] = (i==j) ? del[i] : ((i<j && (j-i<=%d || (%d && i==0) || (%d==2 && j==%d))) ? del[i]*mu[i*%d+j] : (%s)0); } }'
            % (ct, ct, ct, ct, ct, n, n, n, ct, b, ar, ar, n - 1, n, ct, n, b, ar, ar, n - 1, n, ct))


# ------------------------------------------------------------------ pivot helpers under every constant permutation
# The pivot *search* is data dependent, but everything the pivoted strategies do with its result is plain data movement
# steered by the permutation.  For every permutation p (as a constant index tensor / 0-1 matrix) the helpers must satisfy the
# algebraic contracts that make the pivoted strategies correct for WHATEVER bijection the search returns:
#   colwise : reconstruct_colwise(Y,p) * A == Y * apply_pivot(A,p)          (=> inverse/solve<SimpleInvPiv>: X*A = B^-1*B = I, with B = apply_pivot(A,p), Y = B^-1)
#   recon   : apply_pivot(reconstruct(L,U,P),P) == L*U                      (=> reconstruct(L,U,P) is the matrix whose pivoted form is L*U)
#   matmul  : apply_pivot(A,Pmat) == Pmat*A  (copy map: row i <- row p[i]), and the in-place forms agree with the value forms
#   recon2  : apply_pivot(reconstruct(A,p),p) == A
import itertools, random


def perm_regions(t, n, p):
    pm = [0.0] * (n * n)
    for i in range(n):
        pm[i * n + p[i]] = 1.0
    return [{'name': 'pv', 'ety': 'i64', 'cells': n, 'kind': 'tensor', 'role': 'in', 'init': 'ints', 'ints': list(p)},
            dict(treg('pm', t, [n, n]), init='fps', fps=pm)]


def mk_pivot_helper(t, n, p, what):
    ct = CTYPE[t]; tt = tensor_t(t, [n, n]); pt = 'Tensor<size_t,%d>' % n
    tag = ''.join(map(str, p)) if n <= 9 else 'h%d' % (hash(tuple(p)) % 100000)
    pr = {'type': t, 'n': n, 'perm': list(p), 'what': what}
    regs = perm_regions(t, n, p)
    if what == 'colwise':
        wit = 'extern "C" void @W@(const %s& A, const %s& Y, const %s& pv, %s& B, %s& X){ B = apply_pivot(A,pv); X = reconstruct_colwise(Y,pv); }' % (tt, tt, pt, tt, tt)
        ref = ('extern "C" void @R@(const %s* A, const %s* Y, const %s* B, const %s* X, %s* R){ for(int i=0;i<%d;i++) for(int j=0;j<%d;j++){ %s s=0, u=0; for(int k=0;k<%d;k++){ s += X[i*%d+k]*A[k*%d+j]; u += Y[i*%d+k]*B[k*%d+j]; } R[i*%d+j] = s - u; } }'
               % (ct, ct, ct, ct, ct, n, n, ct, n, n, n, n, n, n))
        regions = [treg('A', t, [n, n]), treg('Y', t, [n, n]), regs[0], treg('B', t, [n, n], 'out'), treg('X', t, [n, n], 'out'), rreg('R', t, n * n)]
        stages = [{'mod': 'wit', 'fn': '@W@', 'args': ['A', 'Y', 'pv', 'B', 'X']}, {'mod': 'ref', 'fn': '@R@', 'args': ['A', 'Y', 'B', 'X', 'R']}]
        obl = [{'kind': 'zero', 'region': 'R', 'cells': n * n}]
    elif what in ('recon_vec', 'recon_mat'):
        P, Pt, reg = ('pv', pt, regs[0]) if what == 'recon_vec' else ('pm', tt, regs[1])
        wit = 'extern "C" void @W@(const %s& L, %s& U, const %s& %s, %s& R, %s& B){ R = reconstruct(L,U,%s); B = apply_pivot(R,%s); }' % (tt, tt, Pt, P, tt, tt, P, P)
        ref = 'extern "C" void @R@(const %s* L, const %s* U, %s* M){ for(int i=0;i<%d;i++) for(int j=0;j<%d;j++){ %s s=0; for(int k=0;k<%d;k++) s += L[i*%d+k]*U[k*%d+j]; M[i*%d+j] = s; } }' % (ct, ct, ct, n, n, ct, n, n, n, n)
        regions = [treg('L', t, [n, n]), treg('U', t, [n, n]), reg, treg('R', t, [n, n], 'out'), treg('B', t, [n, n], 'out'), rreg('M', t, n * n)]
        stages = [{'mod': 'wit', 'fn': '@W@', 'args': ['L', 'U', P, 'R', 'B']}, {'mod': 'ref', 'fn': '@R@', 'args': ['L', 'U', 'M']}]
        obl = [{'kind': 'equal', 'a': 'B', 'b': 'M', 'cells': n * n, 'mode': 'ALG'}]
    elif what == 'apply_mat':
        wit = 'extern "C" void @W@(const %s& A, const %s& pm, %s& B, %s& C){ B = apply_pivot(A,pm); C = A; apply_pivot_inplace(C,pm); }' % (tt, tt, tt, tt)
        regions = [treg('A', t, [n, n]), regs[1], treg('B', t, [n, n], 'out'), treg('C', t, [n, n], 'out')]
        stages = [{'mod': 'wit', 'fn': '@W@', 'args': ['A', 'pm', 'B', 'C']}]
        m = [p[i] * n + j for i in range(n) for j in range(n)]       # (Pmat*A)(i,:) = A(p[i],:)
        obl = [{'kind': 'copy', 'region': 'B', 'ns': 'A', 'map': m}, {'kind': 'copy', 'region': 'C', 'ns': 'A', 'map': m}]
    elif what == 'apply_vec':
        wit = 'extern "C" void @W@(const %s& A, const %s& pv, %s& B, %s& C){ B = apply_pivot(A,pv); C = A; apply_pivot_inplace(C,pv); }' % (tt, pt, tt, tt)
        regions = [treg('A', t, [n, n]), regs[0], treg('B', t, [n, n], 'out'), treg('C', t, [n, n], 'out')]
        stages = [{'mod': 'wit', 'fn': '@W@', 'args': ['A', 'pv', 'B', 'C']}]
        obl = [{'kind': 'equal', 'a': 'B', 'b': 'C', 'cells': n * n, 'mode': 'EXACT'}]      # value form and in-place form agree
    elif what == 'recon2':
        wit = 'extern "C" void @W@(const %s& A, const %s& pv, %s& B){ B = apply_pivot(reconstruct(A,pv),pv); }' % (tt, pt, tt)
        regions = [treg('A', t, [n, n]), regs[0], treg('B', t, [n, n], 'out')]
        stages = [{'mod': 'wit', 'fn': '@W@', 'args': ['A', 'pv', 'B']}]
        obl = [{'kind': 'copy', 'region': 'B', 'ns': 'A', 'map': list(range(n * n))}]
    return Witness('piv_%s_%s_%d_%s' % (what, t, n, tag), 'pivot.' + what, pr, wit, ref if what in ('colwise', 'recon_vec', 'recon_mat') else '', regions, stages, obl)


def pivot_helper_witnesses(kinds, tier):
    rng = random.Random(4711)
    W = []
    for n in (2, 3, 4, 5, 8, 9) + (() if tier == 'quick' else (6, 7, 16, 17)):
        perms = list(itertools.permutations(range(n))) if n <= 4 else [tuple(rng.sample(range(n), n)) for _ in range(10 if n <= 5 else 4)] + [tuple(list(range(1, n)) + [0])]
        for k, p in enumerate(perms):
            for what in kinds:
                W.append(mk_pivot_helper('f64' if (k + n) % 2 else 'f32', n, p, what))
    return W
