# C02 — an evaluated expression equals the scalar operation applied element by element (DESIGN.md §5 C02)
from core import *
from c04 import group_sort
import random

ASSIGN = ['=', '+=', '-=', '*=', '/=']
FP_FUNCS = ['sqrt', 'abs', 'sin', 'cos', 'exp', 'log', 'tanh', 'cbrt', 'atan', 'exp2', 'log10', 'sinh']
CMP = ['<', '<=', '>', '>=', '==', '!=']


class Node:
    def __init__(self, kind, op=None, kids=()):
        self.kind, self.op, self.kids = kind, op, list(kids)   # kind: leaf | scalar | un | bin | fn | cmp | logic | not

    def fastor(self):
        k = self.kind
        if k == 'leaf':
            return self.op
        if k == 'scalar':
            return 's'
        if k == 'un':
            return '(-%s)' % self.kids[0].fastor()
        if k == 'fn':
            return '%s(%s)' % (self.op, self.kids[0].fastor())
        if k in ('fn2', 'cls'):
            return '%s(%s)' % (self.op, ','.join(c.fastor() for c in self.kids))
        if k == 'not':
            return '(!%s)' % self.kids[0].fastor()
        return '(%s %s %s)' % (self.kids[0].fastor(), self.op, self.kids[1].fastor())

    def ref(self):
        k = self.kind
        if k == 'leaf':
            return self.op + '[p]'
        if k == 'scalar':
            return 's'
        if k == 'un':
            return '(-%s)' % self.kids[0].ref()
        if k == 'fn':
            return 'std::%s(%s)' % (self.op, self.kids[0].ref())
        if k in ('fn2', 'cls'):
            return 'std::%s(%s)' % (self.op, ','.join(c.ref() for c in self.kids))
        if k == 'not':
            return '(!%s)' % self.kids[0].ref()
        return '(%s %s %s)' % (self.kids[0].ref(), self.op, self.kids[1].ref())

    def has(self, pred):
        return pred(self) or any(c.has(pred) for c in self.kids)

    def depth(self):
        return 1 + max([c.depth() for c in self.kids] + [0])


def L(n):
    return Node('leaf', n)


S = Node('scalar')


def B(op, x, y):
    return Node('bin', op, [x, y])


def rand_tree(rng, depth, t, allow_scalar=True):
    fp = t in ('f32', 'f64')
    if depth <= 1 or rng.random() < 0.15:
        if allow_scalar and rng.random() < 0.2:
            return S
        return L(rng.choice('abc'))
    r = rng.random()
    if r < 0.12:
        return Node('un', '-', [rand_tree(rng, depth - 1, t, False)])
    if r < 0.30 and fp:
        return Node('fn', rng.choice(FP_FUNCS), [rand_tree(rng, depth - 1, t, False)])
    if r < 0.36:
        return Node('fn', 'abs', [rand_tree(rng, depth - 1, t, False)])
    op = rng.choice(['+', '-', '*', '/'] if fp else ['+', '-', '*'])
    x = rand_tree(rng, depth - 1, t)
    y = rand_tree(rng, depth - 1, t, allow_scalar=x.kind != 'scalar')
    if x.kind == 'scalar' and y.kind == 'scalar':
        y = L('a')
    return B(op, x, y)


def bool_tree(rng, t):
    def cmp():
        return Node('cmp', rng.choice(CMP), [rand_tree(rng, 2, t, False), rand_tree(rng, 2, t, False)])
    r = rng.random()
    if r < 0.4:
        return cmp()
    if r < 0.55:
        return Node('not', '!', [cmp()])
    return Node('logic', rng.choice(['&&', '||']), [cmp(), Node('not', '!', [cmp()]) if rng.random() < 0.3 else cmp()])


CORE = [
    lambda: B('+', L('a'), L('b')), lambda: B('-', L('a'), L('b')), lambda: B('*', L('a'), L('b')),
    lambda: Node('un', '-', [L('a')]), lambda: B('+', B('*', Node('un', '-', [L('a')]), L('b')), Node('fn', 'abs', [L('b')])),
    lambda: B('*', L('a'), S), lambda: B('+', S, L('a')), lambda: B('-', L('a'), S), lambda: B('-', S, L('a')),
    lambda: B('+', B('*', L('a'), L('b')), L('c')), lambda: B('*', B('+', L('a'), L('b')), B('-', L('a'), L('c'))),
    lambda: Node('fn', 'abs', [B('-', L('a'), L('b'))]),
]
CORE_FP = [
    lambda: B('/', L('a'), L('b')), lambda: B('/', L('a'), S), lambda: B('/', S, L('a')), lambda: Node('fn', 'sqrt', [L('a')]),
    lambda: Node('fn', 'sqrt', [B('+', B('*', L('a'), L('a')), B('*', L('b'), L('b')))]),
    lambda: B('+', Node('fn', 'sin', [L('a')]), Node('fn', 'cos', [L('b')])), lambda: Node('fn', 'exp', [Node('un', '-', [L('a')])]),
    lambda: B('/', B('+', L('a'), L('b')), B('-', L('c'), S)),
]


def mk(t, n, tree, asg, tag, dest_type=None):
    cell, per = CELL[t]
    ct = CTYPE[t]
    isbool = tree.kind in ('cmp', 'logic', 'not', 'cls')
    rt = dest_type or ('bool' if isbool else t)
    rct = CTYPE[rt]
    scalar_div = tree.has(lambda x: x.kind == 'bin' and x.op == '/' and x.kids[1].kind == 'scalar') or (asg == '/=' and tree.kind == 'scalar')
    mode = 'ALG' if (scalar_div and t in ('f32', 'f64')) else 'EXACT'
    if tree.kind == 'fn2' and tree.op in ('min', 'max'):
        mode = 'MINMAX'
    wit = 'extern "C" void @W@(const %s& a, const %s& b, const %s& c, %s s, %s& r){ r %s %s; }' % (tensor_t(t, [n]), tensor_t(t, [n]), tensor_t(t, [n]), ct, tensor_t(rt, [n]), asg, tree.fastor())
    rhs = tree.ref()
    stmt = {'=': 'r[p] = %s;', '+=': 'r[p] = r[p] + %s;', '-=': 'r[p] = r[p] - %s;', '*=': 'r[p] = r[p] * %s;', '/=': 'r[p] = r[p] / %s;'}[asg] % rhs
    ref = 'extern "C" void @R@(const %s* a, const %s* b, const %s* c, %s s, %s* r){ for(int p=0;p<%d;p++){ %s } }' % (ct, ct, ct, ct, rct, n, stmt)
    role = 'out' if asg == '=' else 'inout'
    regions = [treg('a', t, [n]), treg('b', t, [n]), treg('c', t, [n]), rreg('s', t, 1, role='in', init='sym'), treg('r', rt, [n], role, init='undef' if asg == '=' else 'sym'),
               rreg('rref', rt, n, init='undef' if asg == '=' else 'sym', ns='r')]
    stages = [{'mod': 'wit', 'fn': '@W@', 'args': ['a', 'b', 'c', {'scalar': 's'}, 'r']}, {'mod': 'ref', 'fn': '@R@', 'args': ['a', 'b', 'c', {'scalar': 's'}, 'rref']}]
    return Witness('ex_%s_%d_%s_%s' % (t, n, {'=': 'set', '+=': 'add', '-=': 'sub', '*=': 'mul', '/=': 'div'}[asg], tag), 'expr.' + (('boolrhs' if dest_type else 'bool') if isbool else 'arith') + ('.scalardiv' if mode == 'ALG' else ''),
                   {'type': t, 'n': n, 'assign': asg, 'expr': tree.fastor(), 'depth': tree.depth()}, wit, ref, regions, stages,
                   [{'kind': 'equal', 'a': 'r', 'b': 'rref', 'cells': n, 'mode': mode}])


def witnesses(tier, seed):
    rng = random.Random(1031 + 2)            # the expression trees are a fixed corpus (all of them are decided on the unchanged tree)
    rng_sz = random.Random(seed * 1031 + 2)  # the seed selects which sizes each tree is instantiated at
    quick = tier == 'quick'
    W = []
    types = ['f32', 'f64', 'i32', 'i64']
    sizes_all = list(range(1, 18 if quick else 36))
    k = 0
    for t in types:
        fp = t in ('f32', 'f64')
        trees = [(f(), 'core%d' % i) for i, f in enumerate(CORE)] + ([(f(), 'corefp%d' % i) for i, f in enumerate(CORE_FP)] if fp else [])
        nrand = (30 if quick else 150)
        for i in range(nrand):
            trees.append((rand_tree(rng, 3 if i % 3 else 4, t), 'rnd%d' % i))
        for tree, tag in trees:
            # sizes covering every residue modulo every vector width over the corpus; each tree gets a few
            ns = rng_sz.sample(sizes_all, 3 if quick else 8) + ([1, 16, 17][k % 3:k % 3 + 1])
            for n in sorted(set(ns)):
                k += 1
                asg = ASSIGN[k % 5] if not (asg_int_div(t, k)) else '='
                W.append(mk(t, n, tree, asg, tag))
        # every size once with the simplest trees (covers all residues for every type)
        for n in sizes_all:
            W.append(mk(t, n, CORE[n % len(CORE)](), ASSIGN[n % 4], 'sz'))
        # boolean-valued expressions
        for i in range(12 if quick else 60):
            tree = bool_tree(rng, t)
            for n in rng_sz.sample(sizes_all, 2 if quick else 5):
                W.append(mk(t, n, tree, '=', 'bool%d' % i))
    # every remaining elementwise function of the library: unary math (incl. the rounding family, which has SSE4.1/AVX/AVX-512 vector forms),
    # binary math (min, max, pow, atan2, hypot) with tensor/scalar operands on either side, classification (isinf/isnan/isfinite)
    UN2 = ['tan', 'asin', 'acos', 'cosh', 'log2', 'expm1', 'log1p', 'asinh', 'acosh', 'atanh', 'erf', 'tgamma', 'lgamma', 'ceil', 'round', 'floor', 'trunc']
    for t in ('f32', 'f64'):
        for i, fn in enumerate(UN2):
            for n in ((1, 3, 4, 7, 8, 9, 16, 17) if fn in ('ceil', 'round', 'floor', 'trunc') else (3, 8, 17)):
                W.append(mk(t, n, Node('fn', fn, [L('a')]), ASSIGN[(i + n) % 3], 'un2'))
            W.append(mk(t, 9, B('+', Node('fn', fn, [B('*', L('a'), L('b'))]), L('c')), '=', 'un2e'))
        for i, fn in enumerate(['min', 'max', 'pow', 'atan2', 'hypot']):
            mm = fn in ('min', 'max')    # min/max: compared as min/max sets (the sign of a zero result and NaN ordering are not pinned by the property)
            for n in (1, 3, 4, 7, 8, 9, 17):
                W.append(mk(t, n, Node('fn2', fn, [L('a'), L('b')]), '=' if mm else ASSIGN[(i + n) % 3], 'bin2tt'))
            for n in (4, 9):
                W.append(mk(t, n, Node('fn2', fn, [L('a'), S]), '=', 'bin2ts')); W.append(mk(t, n, Node('fn2', fn, [S, L('a')]), '=', 'bin2st'))
                W.append(mk(t, n, Node('fn2', fn, [B('+', L('a'), L('b')), B('-', L('c'), L('a'))]), '=' if mm else '+=', 'bin2ee'))
        for fn in ('isinf', 'isnan', 'isfinite'):
            for n in (1, 4, 7, 9, 17):
                W.append(mk(t, n, Node('cls', fn, [L('a')]), '=', 'cls')); W.append(mk(t, n, Node('cls', fn, [B('/', L('a'), L('b'))]), '=', 'clse'))
    for t in ('i32', 'i64'):
        for fn in ('min', 'max'):
            for n in (1, 3, 4, 7, 8, 9, 17):
                W.append(mk(t, n, Node('fn2', fn, [L('a'), L('b')]), '=', 'bin2tt'))
    # a boolean-valued expression assigned INTO an arithmetic tensor with every assignment operator except '/=' (division by false)
    for t in types:
        for i, asg in enumerate(['=', '+=', '-=', '*=']):
            for j, mkb in enumerate([lambda: Node('cmp', '<', [L('a'), L('b')]), lambda: Node('logic', '&&', [Node('cmp', '>', [L('a'), L('c')]), Node('cmp', '!=', [L('b'), L('c')])]),
                                     lambda: Node('not', '!', [Node('cmp', '<=', [L('a'), S])])]):
                if j == 2 and asg != '=':
                    continue     # compound assignment of a logical-not expression is rejected by the library under every configuration: not offered
                for n in (1, 3, 4, 7, 8, 9, 16, 17):
                    W.append(mk(t, n, mkb(), asg, 'boolrhs%d' % j, dest_type=t))
    # integer division (vector/vector, vector/scalar, scalar/vector; '=' and '/='): appended after the frozen corpus.
    # Division by zero is undefined for the reference as well; the comparison is structural (sdiv terms) and a refutation
    # point with a zero divisor is not a defined execution and is skipped by the evaluator.
    INT_DIV = [lambda: B('/', L('a'), L('b')), lambda: B('/', L('a'), S), lambda: B('/', S, L('a')), lambda: B('/', B('+', L('a'), L('b')), S), lambda: B('/', S, B('-', L('a'), L('b'))), lambda: B('-', L('c'), B('/', S, L('a')))]
    for t in ('i32', 'i64'):
        for i, f in enumerate(INT_DIV):
            for n in (sizes_all if i < 3 else [3, 4, 7, 8, 9, 16, 17]):
                W.append(mk(t, n, f(), '=' if (n + i) % 3 else '+=', 'idiv%d' % i))
        for n in (1, 2, 3, 4, 5, 7, 8, 9, 15, 16, 17):
            W.append(mk(t, n, L('a'), '/=', 'idivasg_t')); W.append(mk(t, n, S, '/=', 'idivasg_s')); W.append(mk(t, n, B('+', L('a'), L('b')), '/=', 'idivasg_e'))
    # complex element types (explicit (re,im) references)
    import cplx_common
    W += cplx_common.cplx_witnesses('tensor', tier)
    return group_sort(W)


def asg_int_div(t, k):
    return t in ('i32', 'i64') and ASSIGN[k % 5] == '/='


def check(tier, seed):
    R = Runner('C02', tier, seed)
    try:
        R.run_all(witnesses(tier, seed), [Config(isa) for isa in ALL_ISAS], chunk=80)
        # boolean right-hand sides into arithmetic destinations: also as C++14 (the library selects the code path with `if constexpr` only from C++17 on)
        R.run_all([w for w in witnesses(tier, seed) if w.family == 'expr.boolrhs' and w.params['n'] == 4], [Config('sse2', std='gnu++14')], chunk=80)
        return finish('C02', tier, seed, R, 'proof',
                      rule='r op= <expression tree> over Tensor<T,n> operands a,b,c and a scalar s, all symbolic; the reference is the same tree applied to the p-th elements in a plain scalar loop compiled by the same clang (so each C++ scalar operator contributes the IR opcode clang gives it); every flat position p of r is compared EXACTly (hash-consed term equality after bit-preserving rewrites: same IEEE/integer function of the inputs, hence equal for all operand values incl. NaN/Inf/INT_MIN); trees containing division by a scalar are compared ALGEBRAICally (documented reciprocal multiply). Math functions must be the same libm callee on lane p. Trees: fixed core + seeded random trees of depth 3-4; sizes 1..17 (thorough 1..35) so that vector body, scalar tail and every residue are under one oracle; five assignment forms; boolean-valued comparisons and logical operators.',
                      trusted=['clang-14 front end and -O2 code generation', 'LLVM IR semantics as modelled by irflow', 'x86 lane table', 'reference loops emitted by gen/c02.py'],
                      floors=load_floors('C02', tier), assumptions=['accuracy of libm itself is not analysed (same callee on both sides)', '-ffast-math builds are outside the property', 'programs the library rejects under every configuration (compound assignment of a logical-not expression) are counted, not judged'], uniform_reject_ok=True)
    finally:
        R.cleanup()
