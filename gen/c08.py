# C08 — every SIMD vector type behaves as independent scalar lanes (DESIGN.md §5 C08)
from core import *
from c04 import group_sort

ABI_BYTES = {'sse': 16, 'avx': 32, 'avx512': 64}


def lanes(t, abi):
    if abi == 'scalar':
        return 1
    if abi.startswith('fixed'):
        return int(abi[5:])
    base = {'f32': 4, 'f64': 8, 'i32': 4, 'i64': 8, 'c64': 4, 'c128': 8}[t]   # complex vectors keep real and imaginary parts in two registers
    return ABI_BYTES[abi] // base


def abi_cxx(abi):
    if abi.startswith('fixed'):
        return 'simd_abi::fixed_size<%s>' % abi[5:]
    return 'simd_abi::' + abi


# op name -> (Fastor statement(s) producing V z from V x,y,w and scalar s, reference per lane, mode, needs)
def ops_for(t):
    fp = t in ('f32', 'f64')
    cx = t in ('c64', 'c128')
    O = {}
    def add(name, fastor, ref, mode='EXACT', **kw):
        O[name] = dict(fastor=fastor, ref=ref, mode=mode, **kw)
    add('copy', 'V z = x;', 'z = x;')
    add('add', 'V z = x + y;', 'z = x + y;')
    add('sub', 'V z = x - y;', 'z = x - y;')
    add('mul', 'V z = x * y;', 'z = x * y;', mode='ALG' if cx else 'EXACT')
    add('add_s', 'V z = x + s;', 'z = x + s;')
    add('s_add', 'V z = s + x;', 'z = s + x;')
    add('sub_s', 'V z = x - s;', 'z = x - s;')
    add('s_sub', 'V z = s - x;', 'z = s - x;')
    add('mul_s', 'V z = x * s;', 'z = x * s;', mode='ALG' if cx else 'EXACT')
    add('s_mul', 'V z = s * x;', 'z = s * x;', mode='ALG' if cx else 'EXACT')
    add('iadd', 'V z = x; z += y;', 'z = x + y;')
    add('isub', 'V z = x; z -= y;', 'z = x - y;')
    add('imul', 'V z = x; z *= y;', 'z = x * y;', mode='ALG' if cx else 'EXACT')
    add('iadd_s', 'V z = x; z += s;', 'z = x + s;')
    add('isub_s', 'V z = x; z -= s;', 'z = x - s;')
    add('imul_s', 'V z = x; z *= s;', 'z = x * s;', mode='ALG' if cx else 'EXACT')
    add('neg', 'V z = -x;', 'z = -x;')
    add('broadcast', 'V z(s);', 'z = s;')
    add('set1', 'V z; z.set(s);', 'z = s;')
    if not cx:
        add('abs', 'V z = abs(x);', 'z = std::abs(x);')
        add('fmadd', 'V z = fmadd(x,y,w);', 'z = x*y + w;', mode='ALG')
        add('fmsub', 'V z = fmsub(x,y,w);', 'z = x*y - w;', mode='ALG')
        add('fnmadd', 'V z = fnmadd(x,y,w);', 'z = w - x*y;', mode='ALG')
        add('min', 'V z = min(x,y);', 'z = (x < y) ? x : y;', mode='MINMAX')
        add('max', 'V z = max(x,y);', 'z = (x > y) ? x : y;', mode='MINMAX')
        add('set_sequential', 'V z; z.set_sequential(s);', 'z = s + (T)i;', mode='ALG' if fp else 'EXACT')
        add('reverse', 'V z = x.reverse();', None, kind='reverse')
        add('hsum', 'T h = x.sum();', None, kind='hsum', mode='ALG')
        add('hprod', 'T h = x.product();', None, kind='hprod', mode='ALG')
        add('hmin', 'T h = x.minimum();', None, kind='hmin', mode='MINMAX')
        add('hmax', 'T h = x.maximum();', None, kind='hmax', mode='MINMAX')
        add('dot', 'T h = x.dot(y);', None, kind='dot', mode='ALG')
        add('index', 'T h = x[LANE];', None, kind='index')
    if cx:   # fused forms on the complex vectors (separate specialisations per ABI in simd_vector_common.h)
        add('fmadd', 'V z = fmadd(x,y,w);', 'z = x*y + w;', mode='ALG')
        add('fmsub', 'V z = fmsub(x,y,w);', 'z = x*y - w;', mode='ALG')
        add('fnmadd', 'V z = fnmadd(x,y,w);', 'z = w - x*y;', mode='ALG')
    if not fp and not cx:   # integer division: lane-wise, all three operand forms and the in-place forms
        add('div', 'V z = x / y;', 'z = x / y;')
        add('div_s', 'V z = x / s;', 'z = x / s;')
        add('s_div', 'V z = s / x;', 'z = s / x;')
        add('idiv', 'V z = x; z /= y;', 'z = x / y;')
        add('idiv_s', 'V z = x; z /= s;', 'z = x / s;')
    if fp:
        add('idiv_s', 'V z = x; z /= s;', 'z = x / s;', mode='ALG')
    if fp or cx:
        add('div', 'V z = x / y;', 'z = x / y;', mode='ALG' if cx else 'EXACT')
        add('div_s', 'V z = x / s;', 'z = x / s;', mode='ALG')
        add('s_div', 'V z = s / x;', 'z = s / x;', mode='ALG' if cx else 'EXACT')
        add('idiv', 'V z = x; z /= y;', 'z = x / y;', mode='ALG' if cx else 'EXACT')
    if fp:
        add('sqrt', 'V z = sqrt(x);', 'z = std::sqrt(x);')
    return O


def mk(t, abi, name, op, lane=0, alt=None):
    cell, per = CELL[t]
    n = lanes(t, abi)
    ct = CTYPE[t]; cc = CTYPE[cell]
    kind = op.get('kind', 'lane')
    head = 'using T = %s; using V = SIMDVector<T,%s>; static_assert(V::Size == %d, "lane count");' % (ct, abi_cxx(abi), n)
    load = 'V x(a,false), y(b,false), w(c,false);'
    fast = op['fastor'].replace('LANE', str(lane))
    if kind in ('lane', 'reverse'):
        wit = 'extern "C" void @W@(const %s* a, const %s* b, const %s* c, %s s, %s* r){ %s %s %s z.store(r,false); }' % (ct, ct, ct, ct, ct, head, load, fast)
        outn = n
    else:
        wit = 'extern "C" void @W@(const %s* a, const %s* b, const %s* c, %s s, %s* r){ %s %s %s *r = h; }' % (ct, ct, ct, ct, ct, head, load, fast)
        outn = 1
    if per == 1:
        sig = 'extern "C" void @R@(const %s* a, const %s* b, const %s* c, %s s, %s* r)' % (ct, ct, ct, ct, ct)
        if kind == 'lane':
            body = 'typedef %s T; for(int i=0;i<%d;i++){ T x=a[i], y=b[i], w=c[i], z; %s r[i]=z; }' % (ct, n, op['ref'])
        elif kind == 'reverse':
            body = 'for(int i=0;i<%d;i++) r[i]=a[%d-i];' % (n, n - 1)
        elif kind == 'hsum':
            body = '%s h=0; for(int i=0;i<%d;i++) h+=a[i]; *r=h;' % (ct, n)
        elif kind == 'hprod':
            body = '%s h=1; for(int i=0;i<%d;i++) h*=a[i]; *r=h;' % (ct, n)
        elif kind == 'hmin':
            body = '%s h=a[0]; for(int i=1;i<%d;i++) h = (a[i] < h) ? a[i] : h; *r=h;' % (ct, n)
        elif kind == 'hmax':
            body = '%s h=a[0]; for(int i=1;i<%d;i++) h = (a[i] > h) ? a[i] : h; *r=h;' % (ct, n)
        elif kind == 'dot':
            body = '%s h=0; for(int i=0;i<%d;i++) h+=a[i]*b[i]; *r=h;' % (ct, n)
        elif kind == 'index':
            body = '*r = a[%d];' % lane
        ref = sig + '{ ' + body + ' }'
        sarg = [{'scalar': 's'}]
        sreg = [rreg('s', t, 1, role='in', init='sym')]
    else:
        # complex lanes: explicit real arithmetic on (re,im) pairs; the scalar is passed through memory
        sig = 'extern "C" void @R@(const %s* a, const %s* b, const %s* c, const %s* s, %s* r)' % (cc, cc, cc, cc, cc)
        expr = op['ref']
        def cplx(e):
            # tiny complex expression compiler for the forms used above: z = x OP y | z = x | z = s | z = -x
            import re
            m = re.match(r'z = (\w+) ([-+*/]) (\w+);', e)
            def re_(v): return {'x': 'a[2*i]', 'y': 'b[2*i]', 's': 's[0]'}[v]
            def im_(v): return {'x': 'a[2*i+1]', 'y': 'b[2*i+1]', 's': 's[1]'}[v]
            fused = {'z = x*y + w;': ('', '+'), 'z = x*y - w;': ('', '-'), 'z = w - x*y;': ('-', '+')}
            if e in fused:      # w is the third vector (region c)
                sg, o = fused[e]
                pre = 'const %s pr = a[2*i]*b[2*i] - a[2*i+1]*b[2*i+1], pi = a[2*i]*b[2*i+1] + a[2*i+1]*b[2*i];' % cc
                return '{ %s r[2*i] = %spr %s c[2*i]; r[2*i+1] = %spi %s c[2*i+1]; }' % (pre, sg, o, sg, o)
            if m:
                p, o, q = m.groups()
                pr, pi, qr, qi = re_(p), im_(p), re_(q), im_(q)
                if o in '+-':
                    return 'r[2*i] = %s %s %s; r[2*i+1] = %s %s %s;' % (pr, o, qr, pi, o, qi)
                if o == '*':
                    return 'r[2*i] = %s*%s - %s*%s; r[2*i+1] = %s*%s + %s*%s;' % (pr, qr, pi, qi, pr, qi, pi, qr)
                if alt == 'std':
                    return '{ std::complex<%s> P(%s,%s), Q(%s,%s); std::complex<%s> Z = P / Q; r[2*i] = Z.real(); r[2*i+1] = Z.imag(); }' % (cc, pr, pi, qr, qi, cc)   # std::complex division
                return '{ %s d = %s*%s + %s*%s; r[2*i] = (%s*%s + %s*%s)/d; r[2*i+1] = (%s*%s - %s*%s)/d; }' % (cc, qr, qr, qi, qi, pr, qr, pi, qi, pi, qr, pr, qi)
            m = re.match(r'z = (-?)(\w+);', e)
            sg, v = m.groups()
            return 'r[2*i] = %s%s; r[2*i+1] = %s%s;' % (sg, re_(v), sg, im_(v))
        ref = sig + '{ for(int i=0;i<%d;i++){ %s } }' % (n, cplx(expr))
        # the witness receives the complex scalar by value; bind it from two cells
        wit = wit.replace('%s s, %s* r' % (ct, ct), 'const %s* sp, %s* r' % (ct, ct)).replace(head, head + ' const T s = *sp;')
        sarg = ['s']
        sreg = [rreg('s', t, 1, role='in', init='sym')]
    regions = [rreg('a', t, n, role='in', init='sym'), rreg('b', t, n, role='in', init='sym'), rreg('c', t, n, role='in', init='sym')] + sreg + [rreg('r', t, outn, role='out'), rreg('rref', t, outn)]
    stages = [{'mod': 'wit', 'fn': '@W@', 'args': ['a', 'b', 'c'] + sarg + ['r']}, {'mod': 'ref', 'fn': '@R@', 'args': ['a', 'b', 'c'] + sarg + ['rref']}]
    pr = {'type': t, 'abi': abi, 'op': name, 'lanes': n}
    if alt:
        pr['alt'] = alt; pr['or_group'] = 'cdiv_%s_%s_%s' % (t, abi, name)
    return Witness('simd_%s_%s_%s%s%s' % (t, abi, name, '_%d' % lane if kind == 'index' else '', '_' + alt if alt else ''), 'simd.' + name, pr, wit, ref, regions, stages,
                   [{'kind': 'equal', 'a': 'r', 'b': 'rref', 'cells': outn * per, 'mode': op['mode']}])


def mk_aligned(t, abi):
    """aligned load/store on storage the caller aligned to the vector size"""
    n = lanes(t, abi); ct = CTYPE[t]
    al = max(ESZ[CELL[t][0]], n * ESZ[CELL[t][0]])
    wit = 'extern "C" void @W@(const %s* a, %s* r){ using V = SIMDVector<%s,%s>; V x; x.load(a,true); V y(a,true); V z = x + y; z.store(r,true); V u; u.aligned_load(a); u.aligned_store(r + %d); }' % (ct, ct, ct, abi_cxx(abi), n)
    ref = 'extern "C" void @R@(const %s* a, %s* r){ for(int i=0;i<%d;i++){ r[i]=a[i]+a[i]; r[%d+i]=a[i]; } }' % (ct, ct, n, n)
    regions = [rreg('a', t, n, role='in', init='sym', align=al), rreg('r', t, 2 * n, role='out', align=al), rreg('rref', t, 2 * n)]
    return Witness('simd_%s_%s_aligned' % (t, abi), 'simd.aligned_load_store', {'type': t, 'abi': abi, 'op': 'aligned', 'lanes': n}, wit, ref, regions,
                   [{'mod': 'wit', 'fn': '@W@', 'args': ['a', 'r']}, {'mod': 'ref', 'fn': '@R@', 'args': ['a', 'rref']}], [{'kind': 'equal', 'a': 'r', 'b': 'rref', 'cells': 2 * n, 'mode': 'EXACT'}])


def mk_set(t, abi):
    """set(v0..vn-1): Intel order — the last argument lands in lane 0; every ABI must agree"""
    n = lanes(t, abi); ct = CTYPE[t]
    if n not in (2, 4, 8, 16):
        return None
    args = ','.join('a[%d]' % i for i in range(n))
    wit = 'extern "C" void @W@(const %s* a, %s* r){ using V = SIMDVector<%s,%s>; V z; z.set(%s); z.store(r,false); }' % (ct, ct, ct, abi_cxx(abi), args)
    return Witness('simd_%s_%s_setn' % (t, abi), 'simd.set', {'type': t, 'abi': abi, 'op': 'setn', 'lanes': n}, wit, '', [rreg('a', t, n, role='in', init='sym'), rreg('r', t, n, role='out')],
                   [{'mod': 'wit', 'fn': '@W@', 'args': ['a', 'r']}], [{'kind': 'copy', 'region': 'r', 'ns': 'a', 'map': [n - 1 - i for i in range(n)]}])


def mk_mask(t, abi, which):
    """mask_load / mask_store with a symbolic mask: bit i enables lane i; disabled lanes of a store keep memory"""
    n = lanes(t, abi); ct = CTYPE[t]
    mt = 'i16' if n > 8 else 'i8'
    mct = 'uint16_t' if n > 8 else 'uint8_t'
    if which == 'store':
        wit = 'extern "C" void @W@(const %s* a, %s m, %s* r){ using V = SIMDVector<%s,%s>; V x(a,false); x.mask_store(r, m, false); }' % (ct, mct, ct, ct, abi_cxx(abi))
        ref = 'extern "C" void @R@(const %s* a, %s m, %s* r){ for(int i=0;i<%d;i++) if((m>>i)&1) r[i]=a[i]; }' % (ct, mct, ct, n)
        rrole, rinit = 'inout', 'sym'
    else:
        wit = 'extern "C" void @W@(const %s* a, %s m, %s* r){ using V = SIMDVector<%s,%s>; V x; x.mask_load(a, m, false); x.store(r,false); }' % (ct, mct, ct, ct, abi_cxx(abi))
        ref = 'extern "C" void @R@(const %s* a, %s m, %s* r){ for(int i=0;i<%d;i++) r[i] = ((m>>i)&1) ? a[i] : (%s)0; }' % (ct, mct, ct, n, ct)
        rrole, rinit = 'out', 'undef'
    regions = [rreg('a', t, n, role='in', init='sym'), {'name': 'm', 'ety': mt, 'cells': 1, 'kind': 'raw', 'role': 'in', 'init': 'sym'}, rreg('r', t, n, role=rrole, init=rinit), rreg('rref', t, n, init=rinit, ns='r')]
    return Witness('simd_%s_%s_mask_%s' % (t, abi, which), 'simd.mask_' + which, {'type': t, 'abi': abi, 'op': 'mask_' + which, 'lanes': n}, wit, ref, regions,
                   [{'mod': 'wit', 'fn': '@W@', 'args': ['a', {'scalar': 'm'}, 'r']}, {'mod': 'ref', 'fn': '@R@', 'args': ['a', {'scalar': 'm'}, 'rref']}],
                   [{'kind': 'equal', 'a': 'r', 'b': 'rref', 'cells': n, 'mode': 'EXACT'}])


CMPS = {'eq': '==', 'ne': '!=', 'lt': '<', 'gt': '>', 'le': '<=', 'ge': '>='}


def mk_cmp(t, abi, cname, form):
    """comparison operators: lane i of the boolean result is the scalar comparison of lane i (vector-vector, vector-scalar, scalar-vector)"""
    n = lanes(t, abi); ct = CTYPE[t]; o = CMPS[cname]
    e = {'vv': ('x %s y' % o, 'a[i] %s b[i]' % o), 'vs': ('x %s s' % o, 'a[i] %s s' % o), 'sv': ('s %s x' % o, 's %s a[i]' % o)}[form]
    wit = ('extern "C" void @W@(const %s* a, const %s* b, %s s, bool* r){ using T = %s; using V = SIMDVector<T,%s>; V x(a,false), y(b,false); auto z = %s; '
           'static_assert(std::is_same<decltype(z), SIMDVector<bool,simd_abi::fixed_size<%d>>>::value, "mask type"); z.store(r,false); }') % (ct, ct, ct, ct, abi_cxx(abi), e[0], n)
    ref = 'extern "C" void @R@(const %s* a, const %s* b, %s s, bool* r){ for(int i=0;i<%d;i++) r[i] = %s; }' % (ct, ct, ct, n, e[1])
    regions = [rreg('a', t, n, role='in', init='sym'), rreg('b', t, n, role='in', init='sym'), rreg('s', t, 1, role='in', init='sym'), rreg('r', 'bool', n, role='out'), rreg('rref', 'bool', n)]
    return Witness('simd_%s_%s_cmp_%s_%s' % (t, abi, cname, form), 'simd.cmp_' + cname, {'type': t, 'abi': abi, 'op': 'cmp_%s_%s' % (cname, form), 'lanes': n}, wit, ref, regions,
                   [{'mod': 'wit', 'fn': '@W@', 'args': ['a', 'b', {'scalar': 's'}, 'r']}, {'mod': 'ref', 'fn': '@R@', 'args': ['a', 'b', {'scalar': 's'}, 'rref']}],
                   [{'kind': 'equal', 'a': 'r', 'b': 'rref', 'cells': n, 'mode': 'EXACT'}])


def mk_cast(t, u, n):
    """cast<U>() of the generic fixed-size vector: lane i = static_cast<U>(lane i)"""
    ct = CTYPE[t]; cu = CTYPE[u]
    wit = 'extern "C" void @W@(const %s* a, %s* r){ using V = SIMDVector<%s,simd_abi::fixed_size<%d>>; V x(a,false); auto z = x.template cast<%s>(); z.store(r,false); }' % (ct, cu, ct, n, cu)
    ref = 'extern "C" void @R@(const %s* a, %s* r){ for(int i=0;i<%d;i++) r[i] = static_cast<%s>(a[i]); }' % (ct, cu, n, cu)
    return Witness('simd_%s_fixed%d_cast_%s' % (t, n, u), 'simd.cast', {'type': t, 'abi': 'fixed%d' % n, 'op': 'cast_' + u, 'lanes': n}, wit, ref,
                   [rreg('a', t, n, role='in', init='sym'), rreg('r', u, n, role='out'), rreg('rref', u, n)],
                   [{'mod': 'wit', 'fn': '@W@', 'args': ['a', 'r']}, {'mod': 'ref', 'fn': '@R@', 'args': ['a', 'rref']}],
                   [{'kind': 'equal', 'a': 'r', 'b': 'rref', 'cells': n, 'mode': 'EXACT'}])


def mk_cplx(t, abi, name):
    """members and free functions specific to the complex vectors (real and imaginary parts in two registers): explicit (re,im) references"""
    cell, per = CELL[t]; n = lanes(t, abi); ct = CTYPE[t]; cc = CTYPE[cell]
    rabi = abi_cxx(abi)
    head = 'using T = %s; using R = %s; using V = SIMDVector<T,%s>; V x(a,false), y(b,false);' % (ct, cc, rabi)
    rv = 'SIMDVector<R,%s>' % rabi
    outn, outt, mode = n, cell, 'ALG'
    if name == 'norm':
        fast, ref = '%s z = x.norm(); z.store(r,false);' % rv, 'r[i] = A[2*i]*A[2*i] + A[2*i+1]*A[2*i+1];'
    elif name == 'magnitude':
        fast, ref = '%s z = x.magnitude(); z.store(r,false);' % rv, 'r[i] = std::sqrt(A[2*i]*A[2*i] + A[2*i+1]*A[2*i+1]);'
    elif name == 'real':
        fast, ref, mode = '%s z = x.real(); z.store(r,false);' % rv, 'r[i] = A[2*i];', 'EXACT'
    elif name == 'imag':
        fast, ref, mode = '%s z = x.imag(); z.store(r,false);' % rv, 'r[i] = A[2*i+1];', 'EXACT'
    elif name == 'conj':
        fast, ref, mode, outn = 'V z = conj(x); z.store((T*)r,false);', 'r[2*i] = A[2*i]; r[2*i+1] = -A[2*i+1];', 'EXACT', 2 * n
    elif name == 'reverse':
        fast, ref, mode, outn = 'V z = x.reverse(); z.store((T*)r,false);', 'r[2*i] = A[2*(%d-i)]; r[2*i+1] = A[2*(%d-i)+1];' % (n - 1, n - 1), 'EXACT', 2 * n
    elif name == 'mul_real':
        fast, ref, outn = 'V z = x * s; z.store((T*)r,false);', 'r[2*i] = A[2*i]*s; r[2*i+1] = A[2*i+1]*s;', 2 * n
    elif name == 'real_mul':
        fast, ref, outn = 'V z = s * x; z.store((T*)r,false);', 'r[2*i] = s*A[2*i]; r[2*i+1] = s*A[2*i+1];', 2 * n
    elif name == 'div_real':
        fast, ref, outn = 'V z = x / s; z.store((T*)r,false);', 'r[2*i] = A[2*i]/s; r[2*i+1] = A[2*i+1]/s;', 2 * n
    elif name in ('sum', 'dot', 'product'):
        outn = 2
        if name == 'sum':
            fast, ref = 'T h = x.sum(); r[0] = h.real(); r[1] = h.imag();', None
            body = 'R hr=0, hi=0; for(int i=0;i<%d;i++){ hr += A[2*i]; hi += A[2*i+1]; } r[0]=hr; r[1]=hi;' % n
        elif name == 'dot':
            fast = 'T h = x.dot(y); r[0] = h.real(); r[1] = h.imag();'
            body = 'R hr=0, hi=0; for(int i=0;i<%d;i++){ hr += A[2*i]*B[2*i] - A[2*i+1]*B[2*i+1]; hi += A[2*i]*B[2*i+1] + A[2*i+1]*B[2*i]; } r[0]=hr; r[1]=hi;' % n
        else:
            fast = 'T h = x.product(); r[0] = h.real(); r[1] = h.imag();'
            body = 'R hr=1, hi=0; for(int i=0;i<%d;i++){ R pr = hr*A[2*i] - hi*A[2*i+1]; R pi = hr*A[2*i+1] + hi*A[2*i]; hr = pr; hi = pi; } r[0]=hr; r[1]=hi;' % n
        ref = None
    wit = 'extern "C" void @W@(const %s* a, const %s* b, %s s, %s* r){ %s %s }' % (ct, ct, cc, cc, head, fast)
    if ref is not None:
        body = 'for(int i=0;i<%d;i++){ %s }' % (n, ref)
    refs = 'extern "C" void @R@(const %s* A, const %s* B, %s s, %s* r){ typedef %s R; %s }' % (cc, cc, cc, cc, cc, body)
    regions = [rreg('a', t, n, role='in', init='sym'), rreg('b', t, n, role='in', init='sym'), rreg('s', cell, 1, role='in', init='sym'), rreg('r', cell, outn, role='out'), rreg('rref', cell, outn)]
    return Witness('simd_%s_%s_c_%s' % (t, abi, name), 'simd.complex.' + name, {'type': t, 'abi': abi, 'op': 'c_' + name, 'lanes': n}, wit, refs, regions,
                   [{'mod': 'wit', 'fn': '@W@', 'args': ['a', 'b', {'scalar': 's'}, 'r']}, {'mod': 'ref', 'fn': '@R@', 'args': ['a', 'b', {'scalar': 's'}, 'rref']}],
                   [{'kind': 'equal', 'a': 'r', 'b': 'rref', 'cells': outn, 'mode': mode}])


def mk_cmask(t, abi, which):
    """mask_load / mask_store of the complex vectors with a symbolic mask: bit i enables complex lane i"""
    cell, per = CELL[t]; n = lanes(t, abi); ct = CTYPE[t]; cc = CTYPE[cell]
    mt, mct = ('i16', 'uint16_t') if n > 8 else ('i8', 'uint8_t')
    if which == 'store':
        wit = 'extern "C" void @W@(const %s* a, %s m, %s* r){ using V = SIMDVector<%s,%s>; V x(a,false); x.mask_store(r, m, false); }' % (ct, mct, ct, ct, abi_cxx(abi))
        ref = 'extern "C" void @R@(const %s* a, %s m, %s* r){ for(int i=0;i<%d;i++) if((m>>i)&1){ r[2*i]=a[2*i]; r[2*i+1]=a[2*i+1]; } }' % (cc, mct, cc, n)
        rrole, rinit = 'inout', 'sym'
    else:
        wit = 'extern "C" void @W@(const %s* a, %s m, %s* r){ using V = SIMDVector<%s,%s>; V x; x.mask_load(a, m, false); x.store(r,false); }' % (ct, mct, ct, ct, abi_cxx(abi))
        ref = 'extern "C" void @R@(const %s* a, %s m, %s* r){ for(int i=0;i<%d;i++){ r[2*i] = ((m>>i)&1) ? a[2*i] : (%s)0; r[2*i+1] = ((m>>i)&1) ? a[2*i+1] : (%s)0; } }' % (cc, mct, cc, n, cc, cc)
        rrole, rinit = 'out', 'undef'
    regions = [rreg('a', t, n, role='in', init='sym'), {'name': 'm', 'ety': mt, 'cells': 1, 'kind': 'raw', 'role': 'in', 'init': 'sym'}, rreg('r', t, n, role=rrole, init=rinit), rreg('rref', t, n, init=rinit, ns='r')]
    return Witness('simd_%s_%s_cmask_%s' % (t, abi, which), 'simd.complex.mask_' + which, {'type': t, 'abi': abi, 'op': 'cmask_' + which, 'lanes': n}, wit, ref, regions,
                   [{'mod': 'wit', 'fn': '@W@', 'args': ['a', {'scalar': 'm'}, 'r']}, {'mod': 'ref', 'fn': '@R@', 'args': ['a', {'scalar': 'm'}, 'rref']}],
                   [{'kind': 'equal', 'a': 'r', 'b': 'rref', 'cells': 2 * n, 'mode': 'EXACT'}])


def witnesses(tier, seed, isa='avx512'):
    W = []
    for t in ('f32', 'f64', 'i32', 'i64', 'c64', 'c128'):
        for abi in ('scalar', 'sse', 'avx', 'avx512', 'fixed4', 'fixed3'):
            if t in ('c64', 'c128') and abi.startswith('fixed'):
                continue
            for name, op in ops_for(t).items():
                if op.get('kind') == 'index':
                    for lane in range(lanes(t, abi)):
                        W.append(mk(t, abi, name, op, lane))
                elif t in ('c64', 'c128') and 'div' in name:
                    W.append(mk(t, abi, name, op, alt='formula')); W.append(mk(t, abi, name, op, alt='std'))
                else:
                    W.append(mk(t, abi, name, op))
            if t in ('c64', 'c128'):
                for nm in ('norm', 'magnitude', 'real', 'imag', 'conj', 'reverse', 'sum', 'dot', 'product'):   # mixed real-scalar operators exist for the native specialisations only: not part of the common interface
                    W.append(mk_cplx(t, abi, nm))
                if abi in ('sse', 'avx', 'avx512') and lanes(t, abi) <= 8 and (abi != 'avx512' or isa == 'avx512'):
                    W.append(mk_cmask(t, abi, 'load')); W.append(mk_cmask(t, abi, 'store'))
            if t not in ('c64', 'c128'):
                for cname in CMPS:
                    for form in ('vv', 'vs', 'sv'):
                        W.append(mk_cmp(t, abi, cname, form))
                if abi in ('fixed4', 'fixed3'):
                    for u in ('f32', 'f64', 'i32', 'i64'):
                        if u != t:
                            W.append(mk_cast(t, u, lanes(t, abi)))
                W.append(mk_aligned(t, abi))
                s = mk_set(t, abi)
                if s and abi in ('sse', 'avx', 'avx512'):
                    W.append(s)
                if abi in ('sse', 'avx', 'avx512') and (lanes(t, abi) <= 8 or isa in ('avx512f', 'avx512')):
                    W.append(mk_mask(t, abi, 'load')); W.append(mk_mask(t, abi, 'store'))
    return group_sort(W)


def check(tier, seed):
    R = Runner('C08', tier, seed)
    try:
        cfgs = [Config(isa) for isa in ALL_ISAS]
        if tier != 'quick':
            cfgs += [Config(isa, std='gnu++14') for isa in ALL_ISAS] + [Config(isa, opt='-O3') for isa in ('sse2', 'avx2', 'avx512')]
        R.run_all(lambda cfg: witnesses(tier, seed, cfg.isa), cfgs, chunk=40)
        return finish('C08', tier, seed, R, 'proof',
                      rule='one witness per (operation, element type, vector ABI, ISA build): operands are loaded from symbolic lanes, the operation is applied through SIMDVector<T,ABI> and the result stored; a scalar loop over the lanes is the reference. Lane i of the result must be EXACTly scalar_op(lane i of the operands) (ALGEBRAIC for fused multiply-add, division by a scalar and complex multiply/divide; MINMAX for min/max), horizontal sum/product/dot are polynomial folds over all lanes each once, minimum/maximum are min/max sets over exactly the lanes (a seeded identity shows up as an extra member); set(v0..vn-1) must place the arguments in the same (Intel) order under every ABI; aligned load/store on aligned storage; mask_load/mask_store with a SYMBOLIC mask (all 2^Size masks at once): bit i enables lane i, a disabled lane of a load is zero and a disabled lane of a store keeps memory. Every (T, ABI) is instantiated under every ISA build, so both the intrinsic specialisations and the generic array fallback are covered.',
                      trusted=['clang-14 front end and -O2 code generation', 'LLVM IR semantics as modelled by irflow', 'x86 lane table (Intel lane semantics)', 'reference loops emitted by gen/c08.py'],
                      floors=load_floors('C08', tier), assumptions=['relative error of rcp/rsqrt is the hardware specification and is not analysed', 'NaN operands excluded for complex multiply/divide and min/max ordering'])
    finally:
        R.cleanup()
