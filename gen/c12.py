# C12 — solve(A,b) satisfies A*x = b (exact-arithmetic clause; DESIGN.md §5 C12, §6)
from core import *
from linalg_common import *
from c04 import group_sort

STRATS = ['SimpleInv', 'BlockLU', 'SimpleLU']


def mk(t, n, strat, ncols, band=None):
    ct = CTYPE[t]
    ta = tensor_t(t, [n, n]); tb = tensor_t(t, [n] if ncols == 0 else [n, ncols]); nc = max(1, ncols)
    wit = 'extern "C" void @W@(const %s& A, const %s& b, %s& x){ x = solve<SolveCompType::%s>(A, b); }' % (ta, tb, tb, strat)
    # b = A x0 column by column, built by the reference stage from the symbolic solution x0
    rhs = 'extern "C" void @R@rhs(const %s* A, const %s* x0, %s* b){ for(int i=0;i<%d;i++) for(int c=0;c<%d;c++){ %s s=0; for(int k=0;k<%d;k++) s += A[i*%d+k]*x0[k*%d+c]; b[i*%d+c]=s; } }' % (ct, ct, ct, n, nc, ct, n, n, nc, nc)
    ref = pre_ldu(ct, n, band) + '\n' + rhs
    regions = ldu_regions(t, n) + [treg('A', t, [n, n], 'in', init='undef'), rreg('x0', t, n * nc, role='in', init='sym'), treg('b', t, [n] if ncols == 0 else [n, ncols], 'in', init='undef'), treg('x', t, [n] if ncols == 0 else [n, ncols], 'out')]
    stages = [{'mod': 'ref', 'fn': '@R@pre', 'args': ['lam', 'del', 'mu', 'A']}, {'mod': 'ref', 'fn': '@R@rhs', 'args': ['A', 'x0', 'b']}, {'mod': 'wit', 'fn': '@W@', 'args': ['A', 'b', 'x']}]
    obl = [{'kind': 'equal', 'a': 'x', 'b': 'x0', 'cells': n * nc, 'mode': 'ALG'}]
    return Witness('solve_%s_%s_%d_c%d%s' % (t, strat, n, ncols, band_tag(band)), 'solve.' + strat + ('.banded' if isinstance(band, int) else ('.' + band if band else '.full')), {'type': t, 'n': n, 'strategy': strat, 'cols': ncols, 'band': band},
                   wit, ref, regions, stages, obl, extra={'poly_cap': 600000, 'max_steps': 300000000})


def mk_permdiag(t, n, strat, ncols, perm, form='tt'):
    """pivoted strategies on A = P D: a positive diagonal matrix with two rows exchanged so that a leading block of A is singular (only
    a strategy that really pivots can solve it).  Every comparison of the library's pre-pivot search is then |0| against |del| or
    |0| against |0| and is decided by the declared signs, so sizes beyond the closed forms are reachable without a case split.  The
    library pre-pivots on the ORIGINAL matrix column by column (rows i >= j only), which undoes products of disjoint transpositions
    but not general permutations; the family stays inside that domain.  form: which operands are passed as expressions (tt, te, et,
    ee) - each combination is a separate overload that must forward the requested strategy"""
    ct = CTYPE[t]
    ta = tensor_t(t, [n, n]); tb = tensor_t(t, [n] if ncols == 0 else [n, ncols]); nc = max(1, ncols)
    ea = 'A' if form[0] == 't' else '(A+0)'; eb = 'b' if form[1] == 't' else '(b+0)'
    wit = 'extern "C" void @W@(const %s& A, const %s& b, %s& x){ x = solve<SolveCompType::%s>(%s, %s); }' % (ta, tb, tb, strat, ea, eb)
    pre = ('extern "C" void @R@pre(const %s* lam, const %s* del, const %s* mu, %s* A){ static const int pm[%d] = {%s}; for(int i=0;i<%d;i++) for(int j=0;j<%d;j++){ int p = pm[i]; A[i*%d+j] = (p==j) ? del[p] : (%s)0; } }'
           % (ct, ct, ct, ct, n, ','.join(map(str, perm)), n, n, n, ct))
    rhs = 'extern "C" void @R@rhs(const %s* A, const %s* x0, %s* b){ for(int i=0;i<%d;i++) for(int c=0;c<%d;c++){ %s s=0; for(int k=0;k<%d;k++) s += A[i*%d+k]*x0[k*%d+c]; b[i*%d+c]=s; } }' % (ct, ct, ct, n, nc, ct, n, n, nc, nc)
    regions = ldu_regions(t, n, positive=True) + [treg('A', t, [n, n], 'in', init='undef'), rreg('x0', t, n * nc, role='in', init='sym'), treg('b', t, [n] if ncols == 0 else [n, ncols], 'in', init='undef'), treg('x', t, [n] if ncols == 0 else [n, ncols], 'out')]
    stages = [{'mod': 'ref', 'fn': '@R@pre', 'args': ['lam', 'del', 'mu', 'A']}, {'mod': 'ref', 'fn': '@R@rhs', 'args': ['A', 'x0', 'b']}, {'mod': 'wit', 'fn': '@W@', 'args': ['A', 'b', 'x']}]
    obl = [{'kind': 'equal', 'a': 'x', 'b': 'x0', 'cells': n * nc, 'mode': 'ALG'}]
    return Witness('solvepd_%s_%s_%d_c%d_%s_%s' % (t, strat, n, ncols, ''.join(map(str, perm)) if n <= 9 else 'p%d' % (hash(tuple(perm)) % 1000), form), 'solve.' + strat + '.permdiag.' + form,
                   {'type': t, 'n': n, 'strategy': strat, 'cols': ncols, 'perm': list(perm), 'form': form}, wit, pre + '\n' + rhs, regions, stages, obl, extra={'poly_cap': 600000, 'max_steps': 300000000, 'max_ms': 200000})


def mk_separable(t, n, strat, ncols):
    """plain symbolic input, multi-column right-hand side: column j of X must not mention any other column of B"""
    ta = tensor_t(t, [n, n]); tb = tensor_t(t, [n, ncols])
    wit = 'extern "C" void @W@(const %s& A, const %s& b, %s& x){ x = solve<SolveCompType::%s>(A, b); }' % (ta, tb, tb, strat)
    obl = []
    for (i, j) in [(0, 0), (n - 1, ncols - 1), (n // 2, 0)]:
        others = [r * ncols + c for r in range(n) for c in range(ncols) if c != j]
        obl.append({'kind': 'depends', 'region': 'x', 'cell': i * ncols + j, 'ns': 'b', 'cells': [r * ncols + j for r in range(n)] if strat != 'x' else []})
        obl.append({'kind': 'independent_syntactic', 'region': 'x', 'cell': i * ncols + j, 'ns': 'b', 'cells': others})
    if t == 'f64':
        obl.append({'kind': 'no_narrowing', 'region': 'x', 'cells': n * ncols})
    return Witness('solvesep_%s_%s_%d_c%d' % (t, strat, n, ncols), 'solve.' + strat + '.separable', {'type': t, 'n': n, 'strategy': strat, 'cols': ncols}, wit, '',
                   [treg('A', t, [n, n]), treg('b', t, [n, ncols]), treg('x', t, [n, ncols], 'out')], [{'mod': 'wit', 'fn': '@W@', 'args': ['A', 'b', 'x']}], obl)


def mk_subs(t, n, which):
    ct = CTYPE[t]
    ta = tensor_t(t, [n, n]); tv = tensor_t(t, [n])
    if which == 'forward':   # L y = b with L unit lower
        wit = 'static_assert(sizeof(%s) > 0, "complete type");\nextern "C" void @W@(const %s& A, const %s& b, %s& x){ x = internal::forward_subs(A, b); }' % (ta, ta, tv, tv)
        pre = 'extern "C" void @R@pre(const %s* lam, const %s* del, const %s* mu, %s* A){ for(int i=0;i<%d;i++) for(int j=0;j<%d;j++) A[i*%d+j] = (i==j) ? (%s)1 : (i>j ? lam[i*%d+j] : (%s)0); }' % (ct, ct, ct, ct, n, n, n, ct, n, ct)
    else:                    # U x = y with U = D U(mu)
        wit = 'static_assert(sizeof(%s) > 0, "complete type");\nextern "C" void @W@(const %s& A, const %s& b, %s& x){ x = internal::backward_subs(A, b); }' % (ta, ta, tv, tv)
        pre = 'extern "C" void @R@pre(const %s* lam, const %s* del, const %s* mu, %s* A){ for(int i=0;i<%d;i++) for(int j=0;j<%d;j++) A[i*%d+j] = (i==j) ? del[i] : (i<j ? del[i]*mu[i*%d+j] : (%s)0); }' % (ct, ct, ct, ct, n, n, n, n, ct)
    rhs = 'extern "C" void @R@rhs(const %s* A, const %s* x0, %s* b){ for(int i=0;i<%d;i++){ %s s=0; for(int k=0;k<%d;k++) s += A[i*%d+k]*x0[k]; b[i]=s; } }' % (ct, ct, ct, n, ct, n, n)
    regions = ldu_regions(t, n) + [treg('A', t, [n, n], 'in', init='undef'), rreg('x0', t, n, role='in', init='sym'), treg('b', t, [n], 'in', init='undef'), treg('x', t, [n], 'out')]
    stages = [{'mod': 'ref', 'fn': '@R@pre', 'args': ['lam', 'del', 'mu', 'A']}, {'mod': 'ref', 'fn': '@R@rhs', 'args': ['A', 'x0', 'b']}, {'mod': 'wit', 'fn': '@W@', 'args': ['A', 'b', 'x']}]
    return Witness('subs_%s_%s_%d' % (t, which, n), 'solve.' + which + '_subs', {'type': t, 'n': n, 'which': which}, wit, pre + '\n' + rhs, regions, stages, [{'kind': 'equal', 'a': 'x', 'b': 'x0', 'cells': n, 'mode': 'ALG'}],
                   extra={'poly_cap': 600000})


def witnesses(tier, seed):
    quick = tier == 'quick'
    W = []
    for t in ('f64', 'f32'):
        for strat in STRATS:
            full = [1, 2, 3, 4, 5, 6] if quick else [1, 2, 3, 4, 5, 6, 7, 8]
            for n in full:
                for nc in ((0, 2) if quick else (0, 1, 2, 3, 4)):
                    if t == 'f32' and quick and (n > 4 or nc):
                        continue
                    W.append(mk(t, n, strat, nc))
            for n in ([8, 9, 12, 16, 17, 40] if quick else [8, 9, 10, 12, 16, 17, 32, 33, 40, 65]):
                if t == 'f32' and quick and n != 9:
                    continue
                if strat == 'SimpleInv' and n > 40:
                    continue      # the explicit inverse of a 65x65 bidiagonal product exceeds the interpreter's memory cap (measured)
                W.append(mk(t, n, strat, 0, band=1))
                W.append(mk(t, n, strat, 0, band='arrow'))
                if strat != 'SimpleInv':   # the inverse-based strategy forms the full inverse, whose entries grow too fast on the denser patterns
                    W.append(mk(t, n, strat, 2, band='arrow1')); W.append(mk(t, n, strat, 0, band='hub'))
                if n in (9, 17):
                    W.append(mk(t, n, strat, 3, band=1))
            for n in (2, 3, 5, 9):
                W.append(mk_separable(t, n, strat, 3))
        for which in ('forward', 'backward'):
            for n in ([2, 3, 4, 5, 8, 9, 12] if quick else [2, 3, 4, 5, 6, 7, 8, 9, 12, 16, 17]):
                W.append(mk_subs(t, n, which))
    # pivoted strategies end to end (symbolic pivot search, every case decided), vector and multi-column right-hand sides
    for t in ('f64', 'f32'):
        for strat in ('SimpleInvPiv', 'SimpleLUPiv', 'BlockLUPiv'):
            for n in [1, 2, 3]:   # n = 4 exceeds the case-split budget (measured), see C10
                for nc in (0, 2):
                    if t == 'f32' and (n > 2 or nc):
                        continue
                    w = mk(t, n, strat, nc); w.family = 'solve.' + strat + '.pivoted'; w.extra['max_ms'] = 400000
                    W.append(w)
    # pivoted strategies beyond the closed forms, on matrices only a pivoting strategy can solve, through every operand-form overload
    k = 0
    def swp(n, *pairs):
        p = list(range(n))
        for a, b in pairs:
            p[a], p[b] = p[b], p[a]
        return p
    # (the inverse-based pivoted strategy and sizes 6 and 9 were tried and dropped: the interpreter meets data-dependent addresses it
    # cannot resolve there / exceeds its budget; n = 5 is the first size beyond the closed forms, which is what the family is for)
    for strat in ('SimpleLUPiv', 'BlockLUPiv'):
        for (n, perm) in [(2, swp(2, (0, 1))), (5, swp(5, (0, 4)))] + ([] if quick else [(5, swp(5, (1, 4))), (5, swp(5, (0, 3), (1, 4)))]):
            for form in ('tt', 'te', 'et', 'ee'):
                for nc in (0, 2):
                    k += 1
                    W.append(mk_permdiag(['f64', 'f32'][k % 2], n, strat, nc, perm, form))
    W += pivot_helper_witnesses(['colwise'], tier)
    return group_sort(W)


def check(tier, seed):
    R = Runner('C12', tier, seed)
    try:
        cfgs = [Config(isa) for isa in (ALL_ISAS if tier != 'quick' else ['scalar', 'sse2', 'avx', 'avx2', 'avx512'])]
        R.run_all(witnesses(tier, seed), cfgs, chunk=6)
        return finish('C12', tier, seed, R, 'other',
                      rule='exact-arithmetic clause: A = L(lam) D(del) U(mu) as in C10 and the right-hand side initialised to b = A*x0 with a symbolic solution x0 (per column); solve<SimpleInv|BlockLU|SimpleLU>(A,b) must normalise to x0 cell by cell — vector and multi-column right-hand sides, full parametrisation for small n, banded beyond; forward_subs/backward_subs on their own with L = L(lam), U = D U(mu); on plain symbolic input column j of X mentions column j of B and no other column (separability).',
                      trusted=['clang-14 front end and -O2 code generation', 'LLVM IR semantics as modelled by irflow', 'x86 lane table', 'reference stages in gen/linalg_common.py'],
                      floors=load_floors('C12', tier),
                      assumptions=['exact (real) arithmetic: the c*n*eps*cond(A)*||b|| bound is NOT decided (DESIGN.md §6)', 'pivoted strategies and QR/Cholesky solve tags: not analysed (data-dependent pivot search / not implemented)'],
                      extra_cov={'not_decided': 'floating-point residual bound; pivoted strategies end to end for n > 3 outside the P*D family'})
    finally:
        R.cleanup()
