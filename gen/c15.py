# C15 — multi-tensor einsum is independent of the contraction order the cost model picks (DESIGN.md §5 C15)
from core import *
from c04 import group_sort
from einsum_common import *
import random, itertools


def mk(t, lists, ext):
    ct = CTYPE[t]
    nops = len(lists)
    free = free_labels(lists)
    od = [ext[l] for l in free]
    names = 'abcdefgh'[:nops]
    call = 'einsum<%s>(%s)' % (','.join(idx_cxx(L) for L in lists), ','.join(names))
    params = ', '.join('const %s& %s' % (tensor_t(t, [ext[l] for l in L]), names[k]) for k, L in enumerate(lists))
    rt = tensor_t(t, od)
    wit = ('extern "C" void @W@(%s, %s& r){ static_assert(std::is_same<typename std::decay<decltype(%s)>::type, %s>::value, "result type: free indices in order of first appearance across the operand lists"); r = %s; }'
           % (params, rt, call, rt, call))
    regions = [treg(names[k], t, [ext[l] for l in L]) for k, L in enumerate(lists)] + [treg('r', t, od, 'out'), rreg('rref', t, prod(od))]
    stages = [{'mod': 'wit', 'fn': '@W@', 'args': list(names) + ['r']}, {'mod': 'ref', 'fn': '@R@', 'args': list(names) + ['rref']}]
    tag = '_'.join(''.join(map(str, L)) for L in lists)
    return Witness('net_%s_%s_%s' % (t, tag, 'x'.join(str(ext[l]) for l in sorted(ext))), 'network.%dop' % nops,
                   {'type': t, 'topology': tag, 'lists': [list(L) for L in lists], 'ext': {str(k): v for k, v in ext.items()}, 'free': len(free), 'nops': nops},
                   wit, ref_einsum(ct, lists, ext, free, nops), regions, stages, [{'kind': 'equal', 'a': 'r', 'b': 'rref', 'cells': max(1, prod(od)), 'mode': 'ALG', 'diagnose_permutation': True}])


def topologies(ranks):
    n = sum(ranks)
    out = []
    for p in involution_partitions(n):
        lists, k = [], 0
        ok = True
        for r in ranks:
            L = p[k:k + r]; k += r
            if len(set(L)) < len(L):
                ok = False
            lists.append(list(L))
        if not ok:
            continue
        if not free_labels(lists):
            continue          # scalar results are the inner product, covered in C03/C16
        # every operand must share an index with at least one other (a network, not a disjoint outer product of everything)
        shared = [any(l in M for j, M in enumerate(lists) if j != i for l in L) for i, L in enumerate(lists)]
        if sum(shared) < len(lists) - 1:
            continue
        out.append(lists)
    return out


def ext_assignments(labels, rng, count, cap, lists):
    """extent assignments with at most 3 distinct values, including equal extents on distinct free labels"""
    out = []
    vals = [2, 3, 4, 5]
    tries = 0
    while len(out) < count and tries < 200:
        tries += 1
        pal = rng.sample(vals, rng.choice([1, 2, 3]))
        ext = {l: rng.choice(pal) for l in labels}
        if all(prod([ext[l] for l in L]) <= cap for L in lists) and ext not in out:
            out.append(ext)
    return out


def witnesses(tier, seed):
    rng = random.Random(1039 + 15)             # extents: fixed too — acceptance by the compiler depends on them for some networks (known finding F19)
    rng_top = random.Random(15)                # the sample of topologies is fixed: known-findings are keyed by topology
    quick = tier == 'quick'
    T3 = ['f64', 'f32', 'i32']
    W = []
    k = 0
    tops3 = []
    for ranks in itertools.product((1, 2, 3), repeat=3):
        if sum(ranks) <= (6 if quick else 8):
            tops3 += topologies(ranks)
    tops4 = []
    for ranks in itertools.product((1, 2), repeat=4):
        tops4 += topologies(ranks)
    if not quick:
        for ranks in ((2, 2, 2, 3), (3, 2, 2, 2), (2, 3, 2, 2), (1, 3, 3, 1)):
            tops4 += topologies(ranks)
    if quick:
        tops3 = rng_top.sample(tops3, min(len(tops3), 110))
        tops4 = rng_top.sample(tops4, min(len(tops4), 36))
    else:   # sized for about half an hour on 16 cores: a fixed sample (frozen so that known findings stay keyed by topology)
        tops3 = rng_top.sample(tops3, min(len(tops3), 900))
        tops4 = rng_top.sample(tops4, min(len(tops4), 300))
    for lists in tops3 + tops4:
        labels = sorted(set(l for L in lists for l in L))
        for ext in ext_assignments(labels, rng, 2 if quick else 3, 64, lists):
            k += 1
            W.append(mk(T3[k % 3], lists, ext))
    # vectorisable extents on the last index of the last operand (the fused no-op-min kernels vectorise over it when it is free)
    for lists in tops3[::3] + tops4:
        labels = sorted(set(l for L in lists for l in L))
        last = lists[-1][-1]
        for w in (4, 8):
            k += 1
            ext = {l: (w if l == last else (2 if (l + k) % 2 else 3)) for l in labels}
            if all(prod([ext[l] for l in L]) <= 96 for L in lists) and prod([ext[l] for l in free_labels(lists)]) <= 256:
                W.append(mk(T3[k % 2], lists, ext))
    # the cases the README advertises
    W.append(mk('f64', [[0, 1], [1, 2], [2, 3]], {0: 2, 1: 3, 2: 4, 3: 5}))
    W.append(mk('f64', [[0, 1], [2, 3], [3, 1]], {0: 2, 1: 3, 2: 4, 3: 5}))
    W.append(mk('f32', [[0, 1], [2, 3], [3, 1]], {0: 4, 1: 5, 2: 2, 3: 3}))
    W.append(mk('f64', [[0, 1, 2], [2, 3], [3, 4], [4, 0]], {0: 2, 1: 3, 2: 4, 3: 2, 4: 3}))
    return group_sort(W)


def check(tier, seed):
    R = Runner('C15', tier, seed)
    try:
        cfgs = [Config(isa) for isa in ALL_ISAS] + [Config('sse2', std='gnu++14'), Config('avx2', macros=('FASTOR_DONT_PERFORM_OP_MIN',)), Config('sse2', macros=('FASTOR_DONT_PERFORM_OP_MIN',)), Config('avx512', macros=('FASTOR_DONT_PERFORM_OP_MIN',)), Config('sse2', macros=('FASTOR_KEEP_DP_FIXED',))]
        if tier != 'quick':
            cfgs += [Config(isa, std='gnu++14') for isa in ('avx2', 'avx512')] + [Config(isa, macros=('FASTOR_DONT_PERFORM_OP_MIN',)) for isa in ('sse2', 'avx512')] + [Config('avx2', macros=('FASTOR_KEEP_DP_FIXED',))]
        R.run_all(witnesses(tier, seed), cfgs, chunk=30)
        return finish('C15', tier, seed, R, 'other',
                      rule='one witness per (index-sharing topology of 3 or 4 operands, extent assignment, element type, configuration): static_assert on decltype of einsum<...>(a,b,c[,d]) — free indices in order of first appearance across the operand lists — and every result element compared as a polynomial (degree 3/4 monomials) with the full naive Einstein sum. Extent assignments use at most three distinct values from {2,3,4,5}, including equal extents on distinct free labels (where a mis-ordered result would have the declared type), so that different pairwise orders are the cheapest in turn; op-min on/off and FASTOR_KEEP_DP_FIXED.',
                      trusted=['clang-14 front end and -O2 code generation', 'LLVM IR semantics as modelled by irflow', 'x86 lane table', 'Einstein-summation oracle gen/einsum_common.py'],
                      floors=load_floors('C15', tier), assumptions=['operand ranks above 3 and more than 4 operands are not explored', 'networks that the library rejects at compile time under every configuration (scalar intermediates) are counted, not judged'], uniform_reject_ok=True)
    finally:
        R.cleanup()
