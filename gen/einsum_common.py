# Einstein-summation oracle shared by C03 and C15: written from the property statement.
from core import *
import itertools


def involution_partitions(n):
    """all labelings of n positions in which every label is used at most twice, up to renaming (restricted growth)"""
    out = []
    def rec(i, lab, counts):
        if i == n:
            out.append(tuple(lab)); return
        for l in range(len(counts) + 1):
            if l < len(counts):
                if counts[l] >= 2:
                    continue
                counts[l] += 1; lab.append(l); rec(i + 1, lab, counts); lab.pop(); counts[l] -= 1
            else:
                counts.append(1); lab.append(l); rec(i + 1, lab, counts); lab.pop(); counts.pop()
    rec(0, [], [])
    return out


def free_labels(lists):
    flat = [l for L in lists for l in L]
    seen, out = set(), []
    for l in flat:
        if flat.count(l) == 1 and l not in seen:
            out.append(l)
        seen.add(l)
    return out


def ref_einsum(ct, lists, ext, out_order, nops, accumulate_name='r'):
    """naive loops: for every value of the free labels, sum over the repeated ones of the product of the operand elements"""
    names = 'abcdefgh'[:nops]
    labels = sorted(set(l for L in lists for l in L))
    free = out_order
    summed = [l for l in labels if l not in free]
    def off(L):
        dims = [ext[l] for l in L]
        terms = []
        stride = 1
        for l, d in reversed(list(zip(L, dims))):
            terms.append('i%d*%d' % (l, stride)); stride *= d
        return '+'.join(reversed(terms)) if terms else '0'
    code = ''
    for l in free:
        code += 'for(int i%d=0;i%d<%d;i%d++) ' % (l, l, ext[l], l)
    code += '{ %s s=0; ' % ct
    for l in summed:
        code += 'for(int i%d=0;i%d<%d;i%d++) ' % (l, l, ext[l], l)
    code += 's += ' + '*'.join('%s[%s]' % (names[k], off(L)) for k, L in enumerate(lists)) + '; '
    code += '%s[%s] = s; }' % (accumulate_name, off(free))
    sig = ', '.join('const %s* %s' % (ct, names[k]) for k in range(nops)) + ', %s* r' % ct
    return 'extern "C" void @R@(%s){ %s }' % (sig, code)


def idx_cxx(L):
    return 'Index<%s>' % ','.join(str(l) for l in L)
