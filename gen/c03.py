# C03 — pairwise einsum equals the Einstein summation it denotes (DESIGN.md §5 C03)
from core import *
from c04 import group_sort
from einsum_common import *
import random

EXTS = [2, 3, 4, 5, 8, 9, 1]


def choose_ext(labels, rng, cap_cells, lists):
    for _ in range(200):
        pool = EXTS[:]
        rng.shuffle(pool)
        ext = {}
        for k, l in enumerate(labels):
            ext[l] = pool[k % len(pool)] if k < len(pool) else rng.choice(EXTS)
        if all(prod([ext[l] for l in L]) <= cap_cells for L in lists) and prod([ext[l] for l in free_labels(lists)]) <= cap_cells:
            return ext
    return {l: 2 for l in labels}


def mk(t, lists, ext, api='einsum', out=None, expr=()):
    ct = CTYPE[t]
    nops = len(lists)
    free = free_labels(lists)
    out_order = out if out is not None else free
    od = [ext[l] for l in out_order]
    names = 'ab'[:nops]
    targs = ','.join(idx_cxx(L) for L in lists) + ((',O' + idx_cxx(out)) if out is not None else '')
    # operands flagged in expr are passed as expressions (x+0): the overloads for AbstractTensor evaluate them first
    call = '%s<%s>(%s)' % (api, targs, ','.join(('(%s+0)' % n) if k in expr else n for k, n in enumerate(names)))
    params = ', '.join('const %s& %s' % (tensor_t(t, [ext[l] for l in L]), names[k]) for k, L in enumerate(lists))
    rt = tensor_t(t, od)
    wit = ('extern "C" void @W@(%s, %s& r){ static_assert(std::is_same<typename std::decay<decltype(%s)>::type, %s>::value, "result type: free indices in order of first appearance with operand extents"); r = %s; }'
           % (params, rt, call, rt, call))
    regions = [treg(names[k], t, [ext[l] for l in L]) for k, L in enumerate(lists)] + [treg('r', t, od, 'out'), rreg('rref', t, prod(od))]
    stages = [{'mod': 'wit', 'fn': '@W@', 'args': list(names) + ['r']}, {'mod': 'ref', 'fn': '@R@', 'args': list(names) + ['rref']}]
    tag = '_'.join(''.join(map(str, L)) for L in lists) + ('_o' + ''.join(map(str, out)) if out is not None else '') + ('_e' + ''.join(map(str, expr)) if expr else '')
    return Witness('%s_%s_%s_%s' % (api, t, tag, 'x'.join(str(ext[l]) for l in sorted(ext))), 'einsum.%s.%dop' % (api, nops) + ('.explicit' if out is not None else '') + ('.expr' if expr else ''),
                   {'type': t, 'lists': [list(L) for L in lists], 'ext': {str(k): v for k, v in ext.items()}, 'api': api, 'out': list(out) if out is not None else None, 'free': len(free)},
                   wit, ref_einsum(ct, lists, ext, out_order, nops), regions, stages, [{'kind': 'equal', 'a': 'r', 'b': 'rref', 'cells': prod(od), 'mode': 'ALG'}])


def patterns(r0, r1):
    return [(p[:r0], p[r0:]) for p in involution_partitions(r0 + r1)]


def witnesses(tier, seed, std='gnu++17'):
    rng = random.Random(seed * 1033 + 3)
    quick = tier == 'quick'
    T3 = ['f64', 'f32', 'i32']
    W = []
    k = 0
    pats = []
    for r0 in (1, 2, 3):
        for r1 in (1, 2, 3):
            pats += patterns(r0, r1)
    big = []
    for (r0, r1) in ((1, 4), (4, 1), (2, 4), (4, 2), (3, 4), (4, 3), (4, 4)):
        big += patterns(r0, r1)
    pats += (rng.sample(big, 150) if quick else big)
    for (L0, L1) in pats:
        # indices repeated inside one operand of a pair are traces of that operand; the two-operand API of the
        # library is documented for indices shared BETWEEN the operands, so those patterns are enumerated through
        # the single-tensor form below
        if len(set(L0)) < len(L0) or len(set(L1)) < len(L1):
            continue
        labels = sorted(set(L0) | set(L1))
        k += 1
        for rep in range(1 if quick else 2):
            ext = choose_ext(labels, rng, 400 if quick else 700, [L0, L1])
            t = T3[(k + rep) % 3]
            W.append(mk(t, [list(L0), list(L1)], ext))
            if k % 4 == 0:
                W.append(mk(t, [list(L0), list(L1)], ext, api='contraction'))
            fr = free_labels([L0, L1])
            if len(fr) >= 2 and k % 3 == 0:
                o = fr[:]
                rng.shuffle(o)
                if std != 'gnu++14':   # the explicit-output form is provided for C++17 and later only (einsum_explicit.h)
                    W.append(mk(t, [list(L0), list(L1)], ext, out=o))
                    if k % 9 == 0:
                        W.append(mk(t, [list(L0), list(L1)], ext, out=o, expr=[(0,), (1,), (0, 1)][(k // 9) % 3]))
            if k % 5 == 0:    # expression operands (abstract_contraction.h)
                W.append(mk(t, [list(L0), list(L1)], ext, expr=[(0,), (1,), (0, 1)][(k // 5) % 3]))
    # wide extents: each index in turn gets an extent that is 1x, 2x, 3x, 5x, 7x the vector width of some ISA (and +-1 of it), the
    # others stay small — the vectorised loops of the contraction kernels step by the vector width over one index of one operand
    WIDE = {'f32': [12, 16, 20, 24, 28, 33, 48], 'f64': [6, 10, 12, 14, 17, 24, 40], 'i32': [12, 20, 24, 28, 48], 'i64': [6, 10, 12, 24]}
    wk = 0
    for (r0, r1) in ((1, 2), (2, 1), (2, 2), (3, 2), (2, 3), (3, 1), (1, 3)):
        for (L0, L1) in patterns(r0, r1):
            if len(set(L0)) < len(L0) or len(set(L1)) < len(L1) or not (set(L0) & set(L1)):
                continue
            labels = sorted(set(L0) | set(L1))
            for l in labels:
                wk += 1
                if quick and r0 + r1 >= 5 and wk % 2:
                    continue
                t = ['f32', 'f64', 'i32', 'f32', 'f64', 'i64'][wk % 6]
                w = WIDE[t][(wk // 6) % len(WIDE[t])]
                ext = {x: (w if x == l else (2 if (x + wk) % 2 else 3)) for x in labels}
                if prod([ext[x] for x in L0]) > 800 or prod([ext[x] for x in L1]) > 800:
                    continue
                W.append(mk(t, [list(L0), list(L1)], ext, api='einsum' if wk % 3 else 'contraction'))
    # single-tensor einsum (traces)
    for r in (2, 3, 4):
        for p in involution_partitions(r):
            if len(set(p)) == len(p):
                continue
            ext = choose_ext(sorted(set(p)), rng, 500, [p])
            for t in (T3 if not quick else [T3[r % 3]]):
                W.append(mk(t, [list(p)], ext))
            fr = free_labels([p])
            if len(fr) >= 2 and std != 'gnu++14':     # single-tensor form with an explicit output order, tensor and expression operand
                W.append(mk(T3[r % 3], [list(p)], ext, out=fr[::-1]))
                W.append(mk(T3[(r + 1) % 3], [list(p)], ext, out=fr[::-1], expr=(0,)))
            W.append(mk(T3[(r + 2) % 3], [list(p)], ext, expr=(0,)))
    # inner and outer products
    for dims in ([3], [8], [9], [2, 3], [4, 5], [2, 3, 4]):
        for t in T3:
            ct = CTYPE[t]; n = prod(dims)
            wit = 'extern "C" void @W@(const %s& a, const %s& b, %s* r){ *r = inner(a,b); }' % (tensor_t(t, dims), tensor_t(t, dims), ct)
            ref = 'extern "C" void @R@(const %s* a, const %s* b, %s* r){ %s s=0; for(int i=0;i<%d;i++) s+=a[i]*b[i]; *r=s; }' % (ct, ct, ct, ct, n)
            W.append(Witness('inner_%s_%s' % (t, 'x'.join(map(str, dims))), 'einsum.inner', {'type': t, 'dims': dims}, wit, ref, [treg('a', t, dims), treg('b', t, dims), rreg('r', t, 1, role='out'), rreg('rref', t, 1)],
                             [{'mod': 'wit', 'fn': '@W@', 'args': ['a', 'b', 'r']}, {'mod': 'ref', 'fn': '@R@', 'args': ['a', 'b', 'rref']}], [{'kind': 'equal', 'a': 'r', 'b': 'rref', 'cells': 1, 'mode': 'ALG'}]))
    pairs = [([3], [4]), ([2], [9]), ([8], [8]), ([2, 3], [4]), ([3], [2, 5]), ([2, 2], [3, 3]), ([5], [17]), ([2, 2], [2, 2]), ([2, 2], [4]), ([4], [2, 2]), ([3, 3], [3, 3])]
    pairs += [([n0], [n1]) for n0 in (2, 3, 4, 8, 16) for n1 in (2, 3, 4, 8, 9, 16) if [n0, n1] not in ([3, 4], [2, 9], [8, 8])]   # the dyadic kernels are specialised by exact element counts
    for (d0, d1) in pairs:
        for t in T3:
            ct = CTYPE[t]; n0, n1 = prod(d0), prod(d1); od = d0 + d1
            call = 'outer(a,b)'
            wit = 'extern "C" void @W@(const %s& a, const %s& b, %s& r){ static_assert(std::is_same<typename std::decay<decltype(%s)>::type, %s>::value, "outer product type"); r = %s; }' % (tensor_t(t, d0), tensor_t(t, d1), tensor_t(t, od), call, tensor_t(t, od), call)
            ref = 'extern "C" void @R@(const %s* a, const %s* b, %s* r){ for(int i=0;i<%d;i++) for(int j=0;j<%d;j++) r[i*%d+j]=a[i]*b[j]; }' % (ct, ct, ct, n0, n1, n1)
            W.append(Witness('outer_%s_%s_%s' % (t, 'x'.join(map(str, d0)), 'x'.join(map(str, d1))), 'einsum.outer', {'type': t, 'd0': d0, 'd1': d1}, wit, ref, [treg('a', t, d0), treg('b', t, d1), treg('r', t, od, 'out'), rreg('rref', t, n0 * n1)],
                             [{'mod': 'wit', 'fn': '@W@', 'args': ['a', 'b', 'r']}, {'mod': 'ref', 'fn': '@R@', 'args': ['a', 'b', 'rref']}], [{'kind': 'equal', 'a': 'r', 'b': 'rref', 'cells': n0 * n1, 'mode': 'ALG'}]))
    # every overload of inner / outer / dyadic: expression operands on either side, chains
    # of three operands (coverage accounting: the AbstractTensor overloads were unreached)
    def simple(wid, fam, t, params, call, out_dims, ref_body, mode='ALG', scalar=False):
        ct = CTYPE[t]
        sig = ', '.join('const %s& %s' % (tensor_t(t, d), nm) for nm, d in params)
        rsig = ', '.join('const %s* %s' % (ct, nm) for nm, d in params)
        if scalar:
            wit = 'extern "C" void @W@(%s, %s* r){ *r = %s; }' % (sig, ct, call); oreg = [rreg('r', t, 1, role='out'), rreg('rref', t, 1)]; cells = 1
        else:
            wit = 'extern "C" void @W@(%s, %s& r){ r = %s; }' % (sig, tensor_t(t, out_dims), call); oreg = [treg('r', t, out_dims, 'out'), rreg('rref', t, prod(out_dims))]; cells = prod(out_dims)
        ref = 'extern "C" void @R@(%s, %s* r){ %s }' % (rsig, ct, ref_body)
        names = [nm for nm, d in params]
        return Witness(wid, fam, {'type': t, 'call': call}, wit, ref, [treg(nm, t, d) for nm, d in params] + oreg,
                       [{'mod': 'wit', 'fn': '@W@', 'args': names + ['r']}, {'mod': 'ref', 'fn': '@R@', 'args': names + ['rref']}], [{'kind': 'equal', 'a': 'r', 'b': 'rref', 'cells': cells, 'mode': mode}])
    for t in ('f64', 'f32', 'i32'):
        ct = CTYPE[t]
        for dims in ([3], [8], [9], [2, 3], [4, 4]):
            n = prod(dims); tag = 'x'.join(map(str, dims)); P = [('a', dims), ('b', dims), ('c', dims)]
            red = lambda e: '%s s=0; for(int i=0;i<%d;i++) s += %s; *r = s;' % (ct, n, e)
            W.append(simple('inner_ee_%s_%s' % (t, tag), 'einsum.inner.overloads', t, P, 'inner(a+b, b-c)', None, red('(a[i]+b[i])*(b[i]-c[i])'), scalar=True))
            W.append(simple('inner_et_%s_%s' % (t, tag), 'einsum.inner.overloads', t, P, 'inner(a+b, c)', None, red('(a[i]+b[i])*c[i]'), scalar=True))
            W.append(simple('inner_te_%s_%s' % (t, tag), 'einsum.inner.overloads', t, P, 'inner(a, b*c)', None, red('a[i]*(b[i]*c[i])'), scalar=True))
            W.append(simple('inner3_%s_%s' % (t, tag), 'einsum.inner.overloads', t, P, 'inner(a, b, c)', None, red('a[i]*b[i]*c[i]'), scalar=True))
        for (d0, d1) in (([3], [4]), ([2, 2], [2, 2]), ([4], [4]), ([2, 3], [2])):
            n0, n1 = prod(d0), prod(d1); tag = 'x'.join(map(str, d0)) + '_' + 'x'.join(map(str, d1)); od = d0 + d1
            P = [('a', d0), ('a2', d0), ('b', d1), ('b2', d1)]
            body = lambda ea, eb: 'for(int i=0;i<%d;i++) for(int j=0;j<%d;j++) r[i*%d+j] = (%s)*(%s);' % (n0, n1, n1, ea, eb)
            W.append(simple('outer_ee_%s_%s' % (t, tag), 'einsum.outer.overloads', t, P, 'outer(a+a2, b-b2)', od, body('a[i]+a2[i]', 'b[j]-b2[j]')))
            W.append(simple('outer_et_%s_%s' % (t, tag), 'einsum.outer.overloads', t, P, 'outer(a+a2, b)', od, body('a[i]+a2[i]', 'b[j]')))
            W.append(simple('outer_te_%s_%s' % (t, tag), 'einsum.outer.overloads', t, P, 'outer(a, b*b2)', od, body('a[i]', 'b[j]*b2[j]')))
            W.append(simple('dyadic_tt_%s_%s' % (t, tag), 'einsum.outer.overloads', t, P, 'dyadic(a, b)', od, body('a[i]', 'b[j]')))
            W.append(simple('dyadic_ee_%s_%s' % (t, tag), 'einsum.outer.overloads', t, P, 'dyadic(a-a2, b+b2)', od, body('a[i]-a2[i]', 'b[j]+b2[j]')))
        W.append(simple('outer3_%s' % t, 'einsum.outer.overloads', t, [('a', [2]), ('b', [3]), ('c', [2])], 'outer(a, b, c)', [2, 3, 2], 'for(int i=0;i<2;i++) for(int j=0;j<3;j++) for(int k=0;k<2;k++) r[(i*3+j)*2+k] = a[i]*b[j]*c[k];'))
    return group_sort(W)


def check(tier, seed):
    R = Runner('C03', tier, seed)
    try:
        cfgs = [Config(isa) for isa in ALL_ISAS] + [Config(isa, std='gnu++14') for isa in (('sse2', 'avx2', 'avx512') if tier == 'quick' else ALL_ISAS)]
        # the back ends selected by CONTRACT_OPT: 1 and 2 are documented in contraction.h, -1 is exercised by the pinned suite; the
        # values -2 and -3 are left out: -2 does not compile for any pattern (it uses Index<...>::NoIndices, which does not exist) and -3
        # rejects reductions with a static_assert - undocumented leftovers that are not offered, not configurations of the property.
        # The C++17 and C++14 branches of a back end differ (find_remaining vs inline decoding), so each is read under both levels.
        if tier == 'quick':
            cfgs += [Config('sse2', macros=('CONTRACT_OPT=-1',)), Config('avx2', std='gnu++14', macros=('CONTRACT_OPT=1',))]
        else:
            cfgs += [Config('avx2', macros=('CONTRACT_OPT=%d' % c,)) for c in (-1, 1, 2)] + [Config('sse2', std='gnu++14', macros=('CONTRACT_OPT=%d' % c,)) for c in (-1, 1, 2)]
        R.run_all(lambda cfg: witnesses(tier, seed, cfg.std), cfgs, chunk=40)
        return finish('C03', tier, seed, R, 'proof',
                      rule='one witness per (index pattern, extents, element type, configuration): the result type is asserted with static_assert on decltype (free indices in order of first appearance with the operand extents; explicit output order for OIndex), and every result element is compared as a polynomial with a naive nest of loops summing over the repeated indices. Patterns: every labelling of two index lists of ranks <= 3 in which no label occurs more than twice and none twice inside one operand (up to renaming), 150 sampled for rank 4 (thorough: all), single-tensor traces for ranks 2-4; extents distinct per label where the size cap allows so that transposed outputs cannot hide; einsum, contraction and explicit-output forms; C++14 and C++17.',
                      trusted=['clang-14 front end and -O2 code generation', 'LLVM IR semantics as modelled by irflow', 'x86 lane table', 'Einstein-summation oracle gen/einsum_common.py'],
                      floors=load_floors('C03', tier), assumptions=['patterns with an index repeated inside one operand of a two-operand call are not enumerated'])
    finally:
        R.cleanup()
