# Oracles and witness builders shared by the view properties C04, C05, C18 (DESIGN.md §5).
# The selection oracle is written from the property statement and Fastor's README, never from
# the implementation:  a slice (first,last,step) on an axis of extent n selects
# first + j*step for j = 0 .. ceil((last-first)/step)-1 after the normalisation
#   * a negative bound b stands for n+1+b (so `last` = -1 is the one-past-the-end bound),
#   * a fixed integer -1 stands for the last element,
# and scalar indexing A(i) with i<0 counts from the end (i+n).
from core import *
import itertools, random

OPS = {'=': 'assign', '+=': 'add', '-=': 'sub', '*=': 'mul', '/=': 'div'}


class Axis:
    """one axis argument of a view"""
    def __init__(self, kind, f=0, l=0, s=1):
        self.kind, self.f, self.l, self.s = kind, f, l, s   # kind: seq (dynamic), fseq, iseq, all, fix, int (dynamic integer)

    def indices(self, n):
        if self.kind == 'all':
            return list(range(n))
        if self.kind in ('fix', 'int'):
            k = self.f
            if k < 0:
                k += n
            return [k]
        f, l, s = self.f, self.l, self.s
        if self.kind in ('seq', 'fseq', 'iseq'):
            if f == -1 and l == 0:       # a fixed "last element" spelled as a range
                return [n - 1]
            if l < 0:
                l += n + 1
            if f < 0:
                f += n + 1
        cnt = -(-(l - f) // s)
        return [f + j * s for j in range(cnt)]

    def cxx(self, argnames):
        """C++ spelling; dynamic parts refer to function parameters"""
        if self.kind == 'all':
            return 'all'
        if self.kind == 'fix':
            return 'fix<%d>' % self.f
        if self.kind == 'int':
            return argnames[0]
        if self.kind == 'fseq':
            return 'fseq<%d,%d,%d>()' % (self.f, self.l, self.s)
        if self.kind == 'iseq':
            return 'iseq<%d,%d,%d>()' % (self.f, self.l, self.s)
        return 'seq(%s,%s,%s)' % tuple(argnames)

    def nargs(self):
        return {'seq': 3, 'int': 1}.get(self.kind, 0)

    def argvals(self):
        return {'seq': [self.f, self.l, self.s], 'int': [self.f]}.get(self.kind, [])

    def shape_key(self):
        """the part that is baked into the compiled function"""
        if self.kind in ('seq', 'int'):
            return self.kind
        return '%s_%d_%d_%d' % (self.kind, self.f, self.l, self.s)

    def tag(self):
        return '%s(%d,%d,%d)' % (self.kind, self.f, self.l, self.s)


def selection(axes, dims):
    """(result extents, list of flat parent offsets in row-major result order)"""
    if len(axes) == 1 and axes[0].kind == 'diag':       # diag(a) of a square matrix: the rank-1 view of its diagonal
        assert len(dims) == 2 and dims[0] == dims[1]
        return [dims[0]], [i * dims[1] + i for i in range(dims[0])]
    per_axis = [ax.indices(n) for ax, n in zip(axes, dims)]
    ext = [len(p) for p in per_axis]
    sel = [flat(idx, dims) for idx in itertools.product(*per_axis)]
    return ext, sel


def admissible(axes, dims):
    if len(axes) == 1 and axes[0].kind == 'diag':
        return True
    for ax, n in zip(axes, dims):
        idx = ax.indices(n)
        if not idx or min(idx) < 0 or max(idx) >= n:
            return False
        if ax.kind in ('seq', 'fseq', 'iseq') and ax.s < 1:
            return False
    return True


def view_call(axes, obj='a'):
    if len(axes) == 1 and axes[0].kind == 'diag':
        return 'diag(%s)' % obj, []
    names, args, k = [], [], 0
    for ax in axes:
        an = ['p%d' % (k + i) for i in range(ax.nargs())]
        k += ax.nargs()
        names.append(ax.cxx(an)); args.extend(an)
    return '%s(%s)' % (obj, ','.join(names)), args


def int_args(axes):
    out = []
    for ax in axes:
        out.extend({'int': v} for v in ax.argvals())
    return out


def mk_read(t, dims, axes, variant='plain'):
    """r = a(view)  [plain] | r = a(view) + b [expr] | *r = a(i,j) [scalar]"""
    cell, per = CELL[t]
    ext, sel = selection(axes, dims)
    call, argn = view_call(axes)
    params = ''.join(', int %s' % a for a in argn)
    fkey = 'x'.join(map(str, dims)) + '_' + '_'.join(ax.shape_key() for ax in axes) + '_' + 'x'.join(map(str, ext))
    regions = [treg('a', t, dims)]
    if variant == 'plain':
        wit = 'extern "C" void @W@(const %s& a, %s& r%s){ r = %s; }' % (tensor_t(t, dims), tensor_t(t, ext), params, call)
        regions.append(treg('r', t, ext, 'out'))
        stages = [{'mod': 'wit', 'fn': '@W@', 'args': ['a', 'r'] + int_args(axes)}]
        obl = [{'kind': 'copy', 'region': 'r', 'ns': 'a', 'map': [q * per + c for q in sel for c in range(per)]}]
        ref = ''
    elif variant == 'mutable':   # read through the non-const overloads
        wit = 'extern "C" void @W@(%s& a, %s& r%s){ r = %s; }' % (tensor_t(t, dims), tensor_t(t, ext), params, call)
        regions.append(treg('r', t, ext, 'out'))
        stages = [{'mod': 'wit', 'fn': '@W@', 'args': ['a', 'r'] + int_args(axes)}]
        obl = [{'kind': 'copy', 'region': 'r', 'ns': 'a', 'map': [q * per + c for q in sel for c in range(per)]}]
        ref = ''
    elif variant in ('iadd', 'miadd', 'isub', 'misub', 'imul', 'mimul', 'idiv', 'midiv', 'sum', 'msum'):
        # consumers that read the view through its LINEAR vector evaluator eval(idx) (compound assignment into a tensor, reductions);
        # plain assignment of a rank-2 view goes through the two-index evaluator instead
        const = '' if variant.startswith('m') else 'const '
        ct = CTYPE[cell]
        if not variant.endswith('sum'):
            cop = {'add': '+', 'sub': '-', 'mul': '*', 'div': '/'}[variant[-3:]]
            wit = 'extern "C" void @W@(%s%s& a, const %s& b, %s& r%s){ r = b; r %s= %s; }' % (const, tensor_t(t, dims), tensor_t(t, ext), tensor_t(t, ext), params, cop, call)
            regions += [treg('b', t, ext), treg('r', t, ext, 'out'), rreg('rref', t, len(sel)), {'name': 'idx', 'ety': 'i32', 'cells': len(sel), 'kind': 'raw', 'role': 'in', 'init': 'ints', 'ints': sel}]
            ref = 'extern "C" void @R@(const %s* a, const %s* b, %s* r, const int* idx){ for(int k=0;k<%d;k++){ %s x = b[k]; x %s= a[idx[k]]; r[k] = x; } }' % (ct, ct, ct, len(sel), ct, cop)
            stages = [{'mod': 'wit', 'fn': '@W@', 'args': ['a', 'b', 'r'] + int_args(axes)}, {'mod': 'ref', 'fn': '@R@', 'args': ['a', 'b', 'rref', 'idx']}]
            obl = [{'kind': 'equal', 'a': 'r', 'b': 'rref', 'cells': len(sel), 'mode': 'ALG'}]
        else:
            wit = 'extern "C" void @W@(%s%s& a, %s* r%s){ *r = sum(%s); }' % (const, tensor_t(t, dims), ct, params, call)
            regions += [rreg('r', t, 1, role='out'), rreg('rref', t, 1), {'name': 'idx', 'ety': 'i32', 'cells': len(sel), 'kind': 'raw', 'role': 'in', 'init': 'ints', 'ints': sel}]
            ref = 'extern "C" void @R@(const %s* a, %s* r, const int* idx){ %s x = 0; for(int k=0;k<%d;k++) x += a[idx[k]]; *r = x; }' % (ct, ct, ct, len(sel))
            stages = [{'mod': 'wit', 'fn': '@W@', 'args': ['a', 'r'] + int_args(axes)}, {'mod': 'ref', 'fn': '@R@', 'args': ['a', 'rref', 'idx']}]
            obl = [{'kind': 'equal', 'a': 'r', 'b': 'rref', 'cells': 1, 'mode': 'ALG'}]
    else:                        # inside an arithmetic expression
        wit = 'extern "C" void @W@(%s%s& a, const %s& b, %s& r%s){ r = %s + b; }' % ('' if variant == 'mexpr' else 'const ', tensor_t(t, dims), tensor_t(t, ext), tensor_t(t, ext), params, call)
        regions += [treg('b', t, ext), treg('r', t, ext, 'out'), rreg('rref', t, len(sel)), {'name': 'idx', 'ety': 'i32', 'cells': len(sel), 'kind': 'raw', 'role': 'in', 'init': 'ints', 'ints': sel}]
        ct = CTYPE[cell]
        ref = 'extern "C" void @R@(const %s* a, const %s* b, %s* r, const int* idx){ for(int k=0;k<%d;k++) for(int c=0;c<%d;c++) r[k*%d+c] = a[idx[k]*%d+c] + b[k*%d+c]; }' % (ct, ct, ct, len(sel), per, per, per, per)
        stages = [{'mod': 'wit', 'fn': '@W@', 'args': ['a', 'b', 'r'] + int_args(axes)}, {'mod': 'ref', 'fn': '@R@', 'args': ['a', 'b', 'rref', 'idx']}]
        obl = [{'kind': 'equal', 'a': 'r', 'b': 'rref', 'cells': len(sel) * per, 'mode': 'EXACT'}]
    wid = 'rd_%s_%s_%s_%s' % (variant, t, 'x'.join(map(str, dims)), '_'.join(ax.tag() for ax in axes))
    return Witness(wid, 'read.' + variant + '.' + '+'.join(sorted(set(ax.kind for ax in axes))), {'type': t, 'dims': list(dims), 'axes': [ax.tag() for ax in axes], 'variant': variant, 'rank': len(dims)},
                   wit, ref, regions, stages, obl)


def mk_scalar_index(t, dims, idx):
    cell, per = CELL[t]
    norm = [i + n if i < 0 else i for i, n in zip(idx, dims)]
    argn = ['p%d' % k for k in range(len(dims))]
    wit = 'extern "C" void @W@(const %s& a, %s* r%s){ *r = a(%s); }' % (tensor_t(t, dims), CTYPE[t], ''.join(', int %s' % a for a in argn), ','.join(argn))
    regions = [treg('a', t, dims), rreg('r', t, 1, role='out')]
    stages = [{'mod': 'wit', 'fn': '@W@', 'args': ['a', 'r'] + [{'int': i} for i in idx]}]
    q = flat(norm, dims)
    obl = [{'kind': 'copy', 'region': 'r', 'ns': 'a', 'map': [q * per + c for c in range(per)]}]
    return Witness('idx_%s_%s_%s' % (t, 'x'.join(map(str, dims)), '_'.join(map(str, idx))), 'read.scalar_index', {'type': t, 'dims': list(dims), 'index': list(idx), 'rank': len(dims)}, wit, '', regions, stages, obl)


RHS_KINDS = ['scalar', 'tensor', 'slice', 'expr', 'evalexpr']


def mk_write(t, dims, axes, op, rhs, src_axes=None, src_dims=None, noalias=False, same_tensor=False, twice=False, rhs_expr=False, family=None):
    """a(view) op= rhs with a as inout; the reference applies the operator on exactly the selected cells of a copy"""
    cell, per = CELL[t]
    assert per == 1
    ct = CTYPE[t]
    ext, sel = selection(axes, dims)
    call, argn = view_call(axes)
    n = len(sel)
    params = ''.join(', int %s' % a for a in argn)
    regions = [treg('a', t, dims, 'inout'), rreg('aref', t, prod(dims), role='scratch', init='sym', ns='a'),
               {'name': 'idx', 'ety': 'i32', 'cells': n, 'kind': 'raw', 'role': 'in', 'init': 'ints', 'ints': sel}]
    wargs, rargs, wparams, rparams = ['a'], ['aref', 'idx'], '%s& a' % tensor_t(t, dims), '%s* a, const int* idx' % ct
    cop = {'=': 'x = y', '+=': 'x = x + y', '-=': 'x = x - y', '*=': 'x = x * y', '/=': 'x = x / y'}[op]
    mode = 'EXACT'
    lhs = call + ('.noalias()' if noalias else '')
    if rhs == 'scalar':
        regions.append(rreg('s', t, 1, role='in', init='sym'))
        wparams += ', %s s' % ct; rparams += ', %s s' % ct
        wargs.append({'scalar': 's'}); rargs.append({'scalar': 's'})
        rhs_w, rhs_r = 's', 's'
        if op == '/=' and t in ('f32', 'f64'):
            mode = 'ALG'     # division by a scalar may be a reciprocal multiply (one extra rounding, documented)
    elif rhs == 'tensor':
        regions.append(treg('b', t, ext))
        wparams += ', const %s& b' % tensor_t(t, ext); rparams += ', const %s* b' % ct
        wargs.append('b'); rargs.append('b')
        rhs_w, rhs_r = 'b', 'b[k]'
    elif rhs in ('flat', 'flatexpr'):   # a right-hand side of a different rank with the same number of elements (the views have separate
        # overloads for OTHER_DIMS != DIMS); elements correspond in row-major order
        fe = [n] if len(ext) > 1 else [1, n]
        regions.append(treg('b', t, fe))
        wparams += ', const %s& b' % tensor_t(t, fe); rparams += ', const %s* b' % ct
        wargs.append('b'); rargs.append('b')
        rhs_w, rhs_r = ('b', 'b[k]') if rhs == 'flat' else ('(b + b)', '(b[k] + b[k])')
    elif rhs == 'expr':
        regions += [treg('b', t, ext), treg('c', t, ext)]
        wparams += ', const %s& b, const %s& c' % (tensor_t(t, ext), tensor_t(t, ext)); rparams += ', const %s* b, const %s* c' % (ct, ct)
        wargs += ['b', 'c']; rargs += ['b', 'c']
        rhs_w, rhs_r = '(b*c - b)', '(b[k]*c[k] - b[k])'
    elif rhs == 'evalexpr':   # an expression that must be evaluated into a temporary first (matrix product)
        assert len(ext) == 2
        K = 3
        regions += [treg('b', t, [ext[0], K]), treg('c', t, [K, ext[1]])]
        wparams += ', const %s& b, const %s& c' % (tensor_t(t, [ext[0], K]), tensor_t(t, [K, ext[1]])); rparams += ', const %s* b, const %s* c' % (ct, ct)
        wargs += ['b', 'c']; rargs += ['b', 'c']
        rhs_w = '(b % c)'
        rhs_r = '(b[(k/%d)*3+0]*c[0*%d+(k%%%d)] + b[(k/%d)*3+1]*c[1*%d+(k%%%d)] + b[(k/%d)*3+2]*c[2*%d+(k%%%d)])' % ((ext[1],) * 9)
        mode = 'ALG'
    elif rhs == 'slice':      # slice of another tensor (or, for C18, of the same tensor)
        sext, ssel = selection(src_axes, src_dims)
        assert sext == ext or prod(sext) == prod(ext)
        scall, sargn = view_call(src_axes, 'a' if same_tensor else 'b')
        # rename the source's dynamic parameters so they do not clash
        ren = {a: 'q' + a[1:] for a in sargn}
        for a, b in ren.items():
            scall = scall.replace(a, b)
        wparams2 = ''.join(', int %s' % ren[a] for a in sargn)
        regions.append({'name': 'sidx', 'ety': 'i32', 'cells': n, 'kind': 'raw', 'role': 'in', 'init': 'ints', 'ints': ssel})
        if same_tensor:
            rparams += ', const int* sidx'
            rargs += ['sidx']
        else:
            regions.append(treg('b', t, src_dims))
            wparams += ', const %s& b' % tensor_t(t, src_dims); rparams += ', const %s* b, const int* sidx' % ct
            wargs.append('b'); rargs += ['b', 'sidx']
        rhs_w, rhs_r = scall, ('snap[k]' if same_tensor else 'b[sidx[k]]')
        if rhs_expr:
            rhs_w, rhs_r = '(%s + %s)' % (scall, scall), '(%s + %s)' % (rhs_r, rhs_r)
        params2 = wparams2
    else:
        raise ValueError(rhs)
    stmt = '%s %s %s;' % (lhs, op, rhs_w)
    if twice:
        na = '.noalias()' if noalias else ''
        stmt = 'auto v = %s; v%s %s %s; v%s %s %s;' % (call, na, op, rhs_w, na, op, rhs_w)   # noalias() is re-armed for each assignment
    wit = 'extern "C" void @W@(%s%s%s){ %s }' % (wparams, params, params2 if rhs == 'slice' else '', stmt)
    body = 'for(int k=0;k<%d;k++){ %s& x = a[idx[k]]; %s y = %s; %s; }' % (n, ct, ct, rhs_r, cop)
    if rhs == 'slice' and same_tensor:   # snapshot semantics: the whole right-hand side is read before anything is written
        body = '{ %s snap[%d]; for(int k=0;k<%d;k++) snap[k] = a[sidx[k]]; %s }' % (ct, n, n, body)
    if twice:
        body = body + body
    ref = 'extern "C" void @R@(%s){ %s }' % (rparams, body)
    stages = [{'mod': 'wit', 'fn': '@W@', 'args': wargs + int_args(axes) + (int_args(src_axes) if rhs == 'slice' else [])}, {'mod': 'ref', 'fn': '@R@', 'args': rargs}]
    obl = [{'kind': 'equal', 'a': 'a', 'b': 'aref', 'cells': prod(dims), 'mode': mode}]
    wid = 'wr_%s_%s_%s_%s_%s%s%s' % (OPS[op], rhs + ('X' if rhs_expr else '') + ('S' if same_tensor else ''), t, 'x'.join(map(str, dims)), '_'.join(ax.tag() for ax in axes), ('_from_' + '_'.join(ax.tag() for ax in src_axes)) if rhs == 'slice' else '', ('_noalias' if noalias else '') + ('_twice' if twice else ''))
    kinds = '+'.join(sorted(set(ax.kind for ax in axes)))
    return Witness(wid, family or ('write.' + rhs + '.' + kinds), {'same_tensor': same_tensor, 'type': t, 'dims': list(dims), 'axes': [ax.tag() for ax in axes], 'op': op, 'rhs': rhs, 'rank': len(dims), 'noalias': noalias,
                                                     'src': [ax.tag() for ax in src_axes] if src_axes else None, 'twice': twice}, wit, ref, regions, stages, obl)


# ---------------------------------------------------------------- enumeration helpers
def all_triples(n, max_step=None, encodings=True):
    """every admissible (first,last,step) on an axis of extent n, including last-relative / negative encodings"""
    out = []
    for f in range(n):
        for l in range(f + 1, n + 1):
            for s in range(1, (max_step or n) + 1):
                if s > 1 and s >= (l - f) and l != f + 1 and (l - f) > 1 and s > (l - f):
                    continue
                out.append((f, l, s))
                if encodings:
                    out.append((f, l - n - 1, s))                 # last-relative upper bound (l==n -> `last`)
                    if f > 0:
                        out.append((f - n - 1, l - n - 1, s))     # both bounds counted from the end
    # dedupe
    return sorted(set(out))


def seq_axes(n, rng=None, cap=None, max_step=3):
    tr = all_triples(n, max_step=min(max_step, n))
    if cap and len(tr) > cap and rng:
        tr = rng.sample(tr, cap)
    return [Axis('seq', *x) for x in tr]
