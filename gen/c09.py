# C09 — lazy linear-algebra operators give the same result as their eager counterparts (DESIGN.md §5 C09)
from core import *
from c04 import group_sort
import itertools

ASG = ['=', '+=', '-=', '*=', '/=']
OPN = {'=': 'set', '+=': 'add', '-=': 'sub', '*=': 'mul', '/=': 'div'}


def pair(t, name, params, lazy, eager, out_dims, mode='EXACT', dest_init='sym'):
    """params: list of (name, dims); the destination c is inout for both variants and must end up identical"""
    ct = CTYPE[t]
    sig = ', '.join('const %s& %s' % (tensor_t(t, d), n) for n, d in params)
    tc = tensor_t(t, out_dims)
    src = ('extern "C" void @W@(%s, %s& c){ %s }\nextern "C" void @W@e(%s, %s& c){ %s }' % (sig, tc, lazy, sig, tc, eager))
    regions = [treg(n, t, d) for n, d in params] + [treg('c', t, out_dims, 'inout', init=dest_init), treg('ce', t, out_dims, 'inout', init=dest_init, ns='c')]
    names = [n for n, d in params]
    stages = [{'mod': 'wit', 'fn': '@W@', 'args': names + ['c'], 'roles': {'ce': 'scratch'}}, {'mod': 'wit', 'fn': '@W@e', 'args': names + ['ce'], 'roles': {'c': 'scratch', 'ce': 'inout'}}]
    return Witness('lazy_%s_%s' % (t, name), 'lazy.' + name.split('.')[0], {'type': t, 'case': name}, src, '', regions, stages,
                   [{'kind': 'equal', 'a': 'c', 'b': 'ce', 'cells': prod(out_dims), 'mode': mode}])


def witnesses(tier, seed):
    quick = tier == 'quick'
    W = []
    for t in ('f64', 'f32'):
        T = lambda d: tensor_t(t, d)
        # matrix products, with every assignment operator and with the destination on the right-hand side
        for (M, K, N) in [(2, 2, 2), (3, 3, 3), (4, 4, 4), (3, 4, 5), (5, 3, 2), (8, 8, 8), (2, 7, 9), (4, 1, 3), (1, 5, 4)] + ([] if quick else [(5, 5, 5), (9, 4, 3), (1, 6, 4), (6, 1, 6), (16, 3, 5)]):
            P = [('a', [M, K]), ('b', [K, N]), ('d', [M, N])]
            # inner extent 1: the compound forms go through the gemm kernel, which starts from a zero accumulator; 0 + a*b and a*b differ in
            # the sign of a zero result only, which 'equal within rounding' does not distinguish (thorough-tier false alarm, DESIGN 11.4)
            md = 'ALG' if K == 1 else 'EXACT'
            for op in ASG:
                W.append(pair(t, 'matmul.%s.%dx%dx%d' % (ASG.index(op), M, K, N), P, 'c %s a %% b;' % op, '%s t = matmul(a,b); c %s t;' % (T([M, N]), op), [M, N], mode=md))
            W.append(pair(t, 'matmul.plus.%dx%dx%d' % (M, K, N), P, 'c = a % b + d;', '%s t = matmul(a,b); c = t + d;' % T([M, N]), [M, N], mode=md))
            W.append(pair(t, 'matmul.alias_add.%dx%dx%d' % (M, K, N), P, 'c = c + a % b;', '%s t = matmul(a,b); c = c + t;' % T([M, N]), [M, N], mode=md))
            W.append(pair(t, 'matmul.alias_mul.%dx%dx%d' % (M, K, N), P, 'c += (a % b) * c - d;', '%s t = matmul(a,b); c += t * c - d;' % T([M, N]), [M, N], mode='ALG'))   # the staged assignment adds and subtracts the terms separately
            W.append(pair(t, 'matmul.scaled.%dx%dx%d' % (M, K, N), P, 'c -= (a % b) * d;', '%s t = matmul(a,b); c -= t * d;' % T([M, N]), [M, N], mode=md))
            W.append(pair(t, 'trans.lhs.%dx%dx%d' % (M, K, N), [('a', [K, M]), ('b', [K, N])], 'c = trans(a) % b;', '%s ta = transpose(a); %s t = matmul(ta,b); c = t;' % (T([M, K]), T([M, N])), [M, N], mode=md))
            W.append(pair(t, 'trans.rhs.%dx%dx%d' % (M, K, N), [('a', [M, K]), ('b', [N, K])], 'c += a % trans(b);', '%s tb = transpose(b); %s t = matmul(a,tb); c += t;' % (T([K, N]), T([M, N])), [M, N], mode=md))
            W.append(pair(t, 'trans.of_product.%dx%dx%d' % (M, K, N), [('a', [M, K]), ('b', [K, N])], 'c = trans(a % b);', '%s t = matmul(a,b); c = transpose(t);' % T([M, N]), [N, M], mode=md))
            W.append(pair(t, 'matmul.of_sums.%dx%dx%d' % (M, K, N), [('a', [M, K]), ('a2', [M, K]), ('b', [K, N])], 'c = (a + a2) % b;', '%s s = a + a2; c = matmul(s,b);' % T([M, K]), [M, N], mode=md))
        # square-matrix functions with closed forms (no data-dependent control): inverse, determinant, cofactor, adjoint, trace, norm
        for n in (2, 3, 4):
            P = [('a', [n, n]), ('b', [n, n])]
            for op in ASG[:3]:
                W.append(pair(t, 'inv.%s.%d' % (ASG.index(op), n), P, 'c %s inv(a);' % op, '%s t = inverse(a); c %s t;' % (T([n, n]), op), [n, n]))
            W.append(pair(t, 'inv.plus.%d' % n, P, 'c = inv(a) + b;', '%s t = inverse(a); c = t + b;' % T([n, n]), [n, n]))
            W.append(pair(t, 'inv.times.%d' % n, P, 'c = inv(a) % b;', '%s t = inverse(a); c = matmul(t,b);' % T([n, n]), [n, n]))
            W.append(pair(t, 'inv.of_sum.%d' % n, P, 'c = inv(a + b);', '%s s = a + b; c = inverse(s);' % T([n, n]), [n, n]))
            W.append(pair(t, 'inv.alias.%d' % n, P, 'c = c * inv(a) - c;', '%s t = inverse(a); c = c * t - c;' % T([n, n]), [n, n]))
            W.append(pair(t, 'det.scale.%d' % n, P, 'c = det(a) * b;', '%s s = determinant(a); c = s * b;' % CTYPE[t], [n, n]))
            W.append(pair(t, 'det.of_sum.%d' % n, P, 'c = b * det(a + b);', '%s s = a + b; %s q = determinant(s); c = b * q;' % (T([n, n]), CTYPE[t]), [n, n]))
            W.append(pair(t, 'cof.%d' % n, P, 'c += cof(a);', '%s t = cofactor(a); c += t;' % T([n, n]), [n, n]))
            W.append(pair(t, 'adj.%d' % n, P, 'c = adj(a) - b;', '%s t = adjoint(a); c = t - b;' % T([n, n]), [n, n]))
            W.append(pair(t, 'trace.%d' % n, P, 'c = trace(a + b) * b;', '%s s = a + b; %s q = trace(s); c = q * b;' % (T([n, n]), CTYPE[t]), [n, n], mode='ALG'))   # reductions of an expression and of a tensor may associate differently
            W.append(pair(t, 'norm.%d' % n, P, 'c = b * norm(a - b);', '%s s = a - b; %s q = norm(s); c = b * q;' % (T([n, n]), CTYPE[t]), [n, n], mode='ALG'))
            W.append(pair(t, 'solve.%d' % n, [('a', [n, n]), ('b', [n, n]), ('v', [n])], 'c = solve(a + b, v);', '%s s = a + b; c = solve(s, v);' % T([n, n]), [n]))
        for n in (5, 6, 8):
            P = [('a', [n, n]), ('b', [n, n])]
            W.append(pair(t, 'inv.set.%d' % n, P, 'c = inv(a);', '%s t = inverse(a); c = t;' % T([n, n]), [n, n]))
            W.append(pair(t, 'inv.times.%d' % n, P, 'c = inv(a) % b;', '%s t = inverse(a); c = matmul(t,b);' % T([n, n]), [n, n]))
        # every lazy node kind x every operand kind x every consuming context: each (node, assignment) pair has its own assign_* overload
        for (M, K, N) in ([(3, 4, 5), (4, 4, 4)] if quick else [(3, 4, 5), (4, 4, 4), (2, 3, 2), (5, 2, 7), (8, 8, 8)]):
            TM = T([M, N])
            nodes = [
                ('mm_tt', [('a', [M, K]), ('b', [K, N])], 'a % b', '%s t = matmul(a,b);' % TM),
                ('mm_te', [('a', [M, K]), ('bt', [N, K])], 'a % trans(bt)', '%s tb = transpose(bt); %s t = matmul(a,tb);' % (T([K, N]), TM)),
                ('mm_et', [('at', [K, M]), ('b', [K, N])], 'trans(at) % b', '%s ta = transpose(at); %s t = matmul(ta,b);' % (T([M, K]), TM)),
                ('mm_ee', [('a', [M, K]), ('a2', [M, K]), ('bt', [N, K])], '(a + a2) % trans(bt)', '%s sa = a + a2; %s tb = transpose(bt); %s t = matmul(sa,tb);' % (T([M, K]), T([K, N]), TM)),
                ('mm_ts', [('a', [M, K]), ('b', [K, N]), ('b2', [K, N])], 'a % (b + b2)', '%s sb = b + b2; %s t = matmul(a,sb);' % (T([K, N]), TM)),
                ('mm_st', [('a', [M, K]), ('a2', [M, K]), ('b', [K, N])], '(a - a2) % b', '%s sa = a - a2; %s t = matmul(sa,b);' % (T([M, K]), TM)),
                ('tr_t', [('at', [N, M])], 'trans(at)', '%s t = transpose(at);' % TM),
                ('tr_e', [('at', [N, M]), ('at2', [N, M])], 'trans(at + at2)', '%s s0 = at + at2; %s t = transpose(s0);' % (T([N, M]), TM)),
            ]
            if M == N and M <= 4:
                nodes += [('inv_t', [('a', [M, M])], 'inv(a)', '%s t = inverse(a);' % TM), ('inv_e', [('a', [M, M]), ('a2', [M, M])], 'inv(a + a2)', '%s s0 = a + a2; %s t = inverse(s0);' % (TM, TM)),
                          ('cof_t', [('a', [M, M])], 'cof(a)', '%s t = cofactor(a);' % TM), ('adj_t', [('a', [M, M])], 'adj(a)', '%s t = adjoint(a);' % TM)]
            for (nn, P, lazy, eager) in nodes:
                PP = P + [('d', [M, N])]
                for op in ASG:
                    W.append(pair(t, 'ctx.%s.%s.%dx%dx%d' % (nn, OPN[op], M, K, N), PP, 'c %s %s;' % (op, lazy), '%s c %s t;' % (eager, op), [M, N]))
                W.append(pair(t, 'ctx.%s.dminus.%dx%dx%d' % (nn, M, K, N), PP, 'c = d - %s;' % lazy, '%s c = d - t;' % eager, [M, N]))
                W.append(pair(t, 'ctx.%s.minusd.%dx%dx%d' % (nn, M, K, N), PP, 'c = %s - d;' % lazy, '%s c = t - d;' % eager, [M, N]))
                W.append(pair(t, 'ctx.%s.dplus.%dx%dx%d' % (nn, M, K, N), PP, 'c = d + %s;' % lazy, '%s c = d + t;' % eager, [M, N]))
                W.append(pair(t, 'ctx.%s.submix.%dx%dx%d' % (nn, M, K, N), PP, 'c -= d - %s;' % lazy, '%s c -= d - t;' % eager, [M, N], mode='ALG'))
                W.append(pair(t, 'ctx.%s.addmix.%dx%dx%d' % (nn, M, K, N), PP, 'c += d * (%s);' % lazy, '%s c += d * t;' % eager, [M, N], mode='ALG'))
                W.append(pair(t, 'ctx.%s.neg.%dx%dx%d' % (nn, M, K, N), PP, 'c = -(%s);' % lazy, '%s c = -t;' % eager, [M, N]))
        # chains of products: the library may re-associate; compared algebraically with the left-to-right product
        exts = [2, 3, 5, 8]
        for L in (3, 4, 5):
            combos = list(itertools.product(exts, repeat=L + 1))
            step = max(1, len(combos) // (24 if quick else 160))
            for dims in combos[::step]:
                P = [('m%d' % i, [dims[i], dims[i + 1]]) for i in range(L)]
                lazy = 'c = ' + ' % '.join('m%d' % i for i in range(L)) + ';'
                eager, prev = '', 'm0'
                for i in range(1, L):
                    eager += '%s t%d = matmul(%s,m%d); ' % (T([dims[0], dims[i + 1]]), i, prev, i); prev = 't%d' % i
                eager += 'c = %s;' % prev
                W.append(pair(t, 'chain.%s' % 'x'.join(map(str, dims)), P, lazy, eager, [dims[0], dims[L]], mode='ALG', dest_init='undef'))
        # chains consumed by every assignment operator, for extents that make the cost model associate to the left and to the right
        for dims in [(3, 3, 3, 3), (2, 3, 4, 5), (3, 4, 5, 2), (5, 2, 3, 4), (2, 2, 2, 2, 2), (2, 5, 3, 2, 4)]:
            L = len(dims) - 1
            P = [('m%d' % i, [dims[i], dims[i + 1]]) for i in range(L)]
            chain = ' % '.join('m%d' % i for i in range(L))
            eager, prev = '', 'm0'
            for i in range(1, L):
                eager += '%s t%d = matmul(%s,m%d); ' % (T([dims[0], dims[i + 1]]), i, prev, i); prev = 't%d' % i
            for op in ASG:
                W.append(pair(t, 'chain.%s.%s' % (OPN[op], 'x'.join(map(str, dims))), P, 'c %s %s;' % (op, chain), eager + 'c %s %s;' % (op, prev), [dims[0], dims[L]], mode='ALG'))
            W.append(pair(t, 'chain.dminus.%s' % 'x'.join(map(str, dims)), P + [('d', [dims[0], dims[L]])], 'c = d - %s;' % chain, eager + 'c = d - %s;' % prev, [dims[0], dims[L]], mode='ALG'))
    return group_sort(W)


def check(tier, seed):
    R = Runner('C09', tier, seed)
    try:
        R.run_all(witnesses(tier, seed), [Config(isa) for isa in ALL_ISAS], chunk=25)
        return finish('C09', tier, seed, R, 'translation_validation',
                      rule='relational: each case is a pair of witness programs over the same symbolic operands — one with the lazy operators (%%, inv, det, trans, cof, adj, solve, norm, trace, chains of %%) inside an expression, one with every lazy node replaced by the immediately evaluating function stored in a named temporary — for the five assignment operators and for aliasing patterns in which the destination also occurs element-wise on the right-hand side. The final contents of the destination must be EXACTly equal term for term (the lazy form must stage the same kernels); chains of 3-5 products with extents from {2,3,5,8} (so that the flop model picks different associations) are compared ALGEBRAICally with the left-to-right product. inv/det/cof/adj/solve only for n<=4 closed forms (and inverse 5,6,8 through the block recursion): both sides call the same back end, so division atoms coincide.',
                      trusted=['clang-14 front end and -O2 code generation', 'LLVM IR semantics as modelled by irflow', 'x86 lane table'],
                      floors=load_floors('C09', tier), assumptions=['pivoted back ends (determinant n>4, pivoted solve/inverse) are data-dependent and not compared'],
                      extra_cov={'programs': 2 * len(set(r['id'] for r in R.results)), 'disagreements_checked': sum(1 for r in R.results if r['status'] == 'violation')})
    finally:
        R.cleanup()
