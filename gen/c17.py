# C17 — triangular matrix product (DESIGN.md §5 C17)
from core import *
import c01

TAGS = ['General', 'Lower', 'Upper']


def zeros_for(tag, R, C):
    """cells outside the tagged triangle of an R x C operand (the property's hypothesis: they are zero)"""
    z = []
    for i in range(R):
        for k in range(C):
            if (tag == 'Lower' and k > i) or (tag == 'Upper' and k < i):
                z.append(i * C + k)
    return z


def mk(t, M, K, N, lt, rt, form='mat'):
    """form: 'mat' (two matrices), 'matvec' / 'vecmat' (the rank-1 overloads: N == 1 / M == 1), 'expr_l' / 'expr_r' / 'expr_lr'
    (the overloads that evaluate an expression operand into a temporary first)"""
    ta, tb, tc = tensor_t(t, [M, K]), tensor_t(t, [K, N]), tensor_t(t, [M, N])
    if form == 'matvec':
        assert N == 1; tb, tc = tensor_t(t, [K]), tensor_t(t, [M])
    elif form == 'vecmat':
        assert M == 1; ta, tc = tensor_t(t, [K]), tensor_t(t, [N])
    ea = 'a+0' if form in ('expr_l', 'expr_lr') else 'a'
    eb = 'b+0' if form in ('expr_r', 'expr_lr') else 'b'
    wit = ('extern "C" void @W@(const %s& a, const %s& b, %s& c){ c = tmatmul<UpLoType::%s,UpLoType::%s>(%s,%s); }' % (ta, tb, tc, lt, rt, ea, eb))
    ra, rb = treg('a', t, [M, K]), treg('b', t, [K, N])
    ra['zeros'] = zeros_for(lt, M, K); rb['zeros'] = zeros_for(rt, K, N)
    regions = [ra, rb, treg('c', t, [M, N], 'out'), rreg('cref', t, M * N)]
    stages = [{'mod': 'wit', 'fn': '@W@', 'args': ['a', 'b', 'c']}, {'mod': 'ref', 'fn': '@R@', 'args': ['a', 'b', 'cref']}]
    obl = [{'kind': 'equal', 'a': 'c', 'b': 'cref', 'cells': M * N, 'mode': 'ALG'}]
    return Witness('tmm_%s_%s%s_%d_%d_%d%s' % (t, lt[0], rt[0], M, K, N, '' if form == 'mat' else '_' + form), 'tmatmul' + ('' if form == 'mat' else '.' + form),
                   {'type': t, 'M': M, 'K': K, 'N': N, 'lhs': lt, 'rhs': rt, 'form': form}, wit, c01.ref_matmul(t, M, K, N), regions, stages, obl)


def witnesses(tier, seed):
    W = []
    box = 7 if tier == 'quick' else 12
    types = ['f32', 'f64', 'i32', 'i64']
    n = 0
    for M in range(1, box + 1):
        for K in range(1, box + 1):
            for N in range(1, box + 1):
                for lt in TAGS:
                    for rt in TAGS:
                        n += 1
                        if tier == 'quick':
                            # every (shape, tag pair) with one element type chosen round-robin; full type coverage over the box
                            W.append(mk(types[(n + seed) % 4], M, K, N, lt, rt))
                        else:
                            for t in (types if (M + K + N) % 2 == 0 else [types[n % 4]]):
                                W.append(mk(t, M, K, N, lt, rt))
    extra = [(8, 8, 9), (9, 9, 9), (9, 8, 17), (16, 16, 16), (17, 17, 17), (5, 13, 12), (13, 5, 15), (4, 16, 31)]
    # later row blocks of the masked kernels (AVX2 / AVX-512): M beyond the first big block, N with a masked remainder of 2 or more lanes
    extra += [(M, K, N) for M in (13, 15, 21) for K in (8, 12) for N in (6, 7, 11)] + [(14, 16, 15), (22, 9, 19)]
    # wide results: 3, 4 and 5 vectors per row block for the narrow ISAs, mask variants (coverage accounting: interior_block_tmatmul_impl<numSIMDCols=3..5>)
    extra += [(6, 6, 6 + 0 * k) for k in ()] + [(9, 9, 10), (9, 9, 12), (6, 7, 20), (10, 10, 24), (9, 12, 40), (13, 8, 48)]
    if tier != 'quick':
        extra += [(M, K, N) for M in (13, 14) for K in (13, 14) for N in (13, 14, 15, 16, 17)] + [(24, 24, 24), (25, 25, 33), (33, 9, 8)]
    # the three-vector-wide interior block (numSIMDCols == 3) is chosen only when M and N are multiples of 3 widths and N > 24; the k range
    # of a triangular operand must extend beyond two widths for the third vector column to matter: one shape per SIMD width
    for V in (2, 4, 8, 16):
        n3 = 3 * V
        while n3 <= 24:
            n3 += 3 * V
        extra.append((3 * V, n3, n3))
    for (M, K, N) in extra:
        for lt in TAGS:
            for rt in TAGS:
                for t in (['f32', 'f64'] if tier == 'quick' else types):
                    W.append(mk(t, M, K, N, lt, rt))
    # the rank-1 overloads (matrix x vector, vector x matrix) and the overloads taking expressions (coverage accounting: unreached)
    k = 0
    for n in ([1, 2, 3, 4, 5, 7, 8, 9, 16, 17] if tier == 'quick' else list(range(1, 18)) + [31, 32, 33]):
        for m in ([n] if tier == 'quick' else sorted(set([n, max(1, n - 1), n + 3]))):
            for lt in TAGS:
                for rt in TAGS:
                    k += 1
                    t = types[(k + seed) % 4]
                    W.append(mk(t, m, n, 1, lt, rt, 'matvec'))
                    W.append(mk(t, 1, n, m, lt, rt, 'vecmat'))
    for (M, K, N) in [(3, 3, 3), (4, 5, 4), (7, 7, 7), (8, 8, 9), (5, 9, 13)]:
        for lt in TAGS:
            for rt in TAGS:
                for form in ('expr_l', 'expr_r', 'expr_lr'):
                    k += 1
                    W.append(mk(types[(k + seed) % 4], M, K, N, lt, rt, form))
    return W


def check(tier, seed):
    R = Runner('C17', tier, seed)
    try:
        R.run_all(witnesses(tier, seed), [Config(isa) for isa in ALL_ISAS], chunk=60)
        return finish('C17', tier, seed, R, 'proof',
                      rule='one witness per (element type, M, K, N, lhs tag, rhs tag, ISA): c = tmatmul<Lhs,Rhs>(a,b) with the cells of a and b outside the tagged triangle initialised to the constant 0 (the hypothesis of the property) and all other cells symbolic; every cell of c must equal, as a polynomial, the cell of the ordinary product computed by a naive loop, every cell of c must be written (structural zeros included), loads may stray outside the triangle but not outside the operand. Box(%d) x 9 tag pairs + block-boundary shapes. Non-trivial = more than 8 terms.' % (7 if tier == 'quick' else 12),
                      trusted=['clang-14 front end and -O2 code generation', 'LLVM IR semantics as modelled by irflow', 'x86 lane table', 'naive reference product emitted by gen/c01.py'],
                      floors=load_floors('C17', tier), assumptions=['shapes outside the enumerated set are not explored'])
    finally:
        R.cleanup()
