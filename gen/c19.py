# C19 — index-tensor and boolean-mask views (DESIGN.md §5 C19)
from core import *
from views import OPS
from c04 import group_sort
import random, itertools

ALLOPS = ['=', '+=', '-=', '*=', '/=']
INT_T = {'i32': ('int', 'i32'), 'i64': ('int64_t', 'i64'), 'u64': ('size_t', 'i64')}


def it_region(name, ity, dims, values):
    return {'name': name, 'ety': INT_T[ity][1], 'cells': prod(dims), 'kind': 'tensor', 'role': 'in', 'init': 'ints', 'ints': list(values)}


def it_type(ity, dims):
    return 'Tensor<%s%s>' % (INT_T[ity][0], ''.join(',%d' % d for d in dims))


def form_call(form, extra):
    # C++ spelling of the view and the flat parent offsets it denotes, in view order
    return {'flat': 'a(it)', 'nd': 'a(it)', 'axes': 'a(it,jt)', 'it_int': 'a(it,%d)' % extra.get('k', 0), 'int_it': 'a(%d,it)' % extra.get('k', 0),
            'it_fseq': 'a(it,fseq<%d,%d,%d>())' % extra.get('fs', (0, 1, 1)), 'fseq_it': 'a(fseq<%d,%d,%d>(),it)' % extra.get('fs', (0, 1, 1))}[form]


def offsets(form, dims, it, jt, extra):
    if form in ('flat', 'nd'):
        return list(it)
    N = dims[1]
    if form == 'axes':
        return [i * N + j for i in it for j in jt]
    if form == 'it_int':
        return [i * N + extra['k'] for i in it]
    if form == 'int_it':
        return [extra['k'] * N + i for i in it]
    F, L, S = extra['fs']
    cols_or_rows = list(range(F, L, S))
    if form == 'it_fseq':
        return [i * N + c for i in it for c in cols_or_rows]
    return [r * N + i for r in cols_or_rows for i in it]


def result_dims(form, it_dims, jt_dims, extra):
    if form in ('flat', 'nd'):
        return list(it_dims)
    if form == 'axes':
        return [it_dims[0], jt_dims[0]]
    if form in ('it_int', 'int_it'):
        return [it_dims[0], 1]
    F, L, S = extra['fs']
    n = len(range(F, L, S))
    return [it_dims[0], n] if form == 'it_fseq' else [n, it_dims[0]]


def mk_index(t, dims, form, ity, it, jt=None, extra=None, mode='read', op='=', rhs='tensor', it_dims=None, noalias_src=None, nonconst=False):
    extra = extra or {}
    ct = CTYPE[t]
    it_dims = it_dims or [len(it)]
    jt_dims = [len(jt)] if jt is not None else None
    off = offsets(form, dims, it, jt, extra)
    rd = result_dims(form, it_dims, jt_dims, extra)
    n = len(off)
    call = form_call(form, extra)
    params = 'const %s& it' % it_type(ity, it_dims) + (', const %s& jt' % it_type(ity, jt_dims) if jt is not None else '')
    regions = [it_region('it', ity, it_dims, it)] + ([it_region('jt', ity, jt_dims, jt)] if jt is not None else [])
    iargs = ['it'] + (['jt'] if jt is not None else [])
    fam = 'index.%s.%s' % (form, mode)
    pr = {'type': t, 'dims': list(dims), 'form': form, 'int': ity, 'it': list(it), 'jt': list(jt) if jt is not None else None, 'mode': mode, 'op': op, 'rhs': rhs, **{k: list(v) if isinstance(v, tuple) else v for k, v in extra.items()}}
    wid = 'ix_%s_%s_%s_%s_%s_%s%s' % (mode, form, t, ity, 'x'.join(map(str, dims)), '-'.join(map(str, it)), ('_' + '-'.join(map(str, jt))) if jt is not None else '')
    if mode == 'read':
        # every view-producing overload has a const and a non-const twin: both are read through (the non-const parent must not be stored to)
        wit = 'extern "C" void @W@(%s%s& a, %s, %s& r){ r = %s; }' % ('' if nonconst else 'const ', tensor_t(t, dims), params, tensor_t(t, rd), call)
        if nonconst:
            wid += '_nc'; pr['parent'] = 'nonconst'
        regions = [treg('a', t, dims)] + regions + [treg('r', t, rd, 'out')]
        return Witness(wid, fam, pr, wit, '', regions, [{'mod': 'wit', 'fn': '@W@', 'args': ['a'] + iargs + ['r']}], [{'kind': 'copy', 'region': 'r', 'ns': 'a', 'map': off}])
    cop = {'=': 'x = y', '+=': 'x = x + y', '-=': 'x = x - y', '*=': 'x = x * y', '/=': 'x = x / y'}[op]
    regions = [treg('a', t, dims, 'inout'), rreg('aref', t, prod(dims), init='sym', ns='a'), {'name': 'idx', 'ety': 'i32', 'cells': n, 'kind': 'raw', 'role': 'in', 'init': 'ints', 'ints': off}] + regions
    mode_cmp = 'EXACT'
    if rhs == 'scalar':
        regions.append(rreg('s', t, 1, role='in', init='sym'))
        wp, rp, wa, ra, rw, rr = ', %s s' % ct, ', %s s' % ct, [{'scalar': 's'}], [{'scalar': 's'}], 's', 's'
        if op == '/=' and t in ('f32', 'f64'):
            mode_cmp = 'ALG'
    elif rhs == 'tensor':
        regions.append(treg('b', t, rd))
        wp, rp, wa, ra, rw, rr = ', const %s& b' % tensor_t(t, rd), ', const %s* b' % ct, ['b'], ['b'], 'b', 'b[k]'
    elif rhs == 'expr':
        regions += [treg('b', t, rd), treg('c', t, rd)]
        wp, rp, wa, ra, rw, rr = ', const %s& b, const %s& c' % (tensor_t(t, rd), tensor_t(t, rd)), ', const %s* b, const %s* c' % (ct, ct), ['b', 'c'], ['b', 'c'], '(b*c - b)', '(b[k]*c[k] - b[k])'
    elif rhs == 'evalexpr':   # a right-hand side that must be evaluated into a temporary first (matrix-vector / matrix-matrix product)
        assert len(rd) in (1, 2)
        if len(rd) == 1:
            regions += [treg('b', t, [rd[0], 3]), treg('c', t, [3])]
            wp = ', const %s& b, const %s& c' % (tensor_t(t, [rd[0], 3]), tensor_t(t, [3]))
            rr = '(b[k*3+0]*c[0] + b[k*3+1]*c[1] + b[k*3+2]*c[2])'
        else:
            regions += [treg('b', t, [rd[0], 3]), treg('c', t, [3, rd[1]])]
            wp = ', const %s& b, const %s& c' % (tensor_t(t, [rd[0], 3]), tensor_t(t, [3, rd[1]]))
            rr = '(b[(k/%d)*3+0]*c[0*%d+(k%%%d)] + b[(k/%d)*3+1]*c[1*%d+(k%%%d)] + b[(k/%d)*3+2]*c[2*%d+(k%%%d)])' % ((rd[1],) * 9)
        rp, wa, ra, rw = ', const %s* b, const %s* c' % (ct, ct), ['b', 'c'], ['b', 'c'], '(b % c)'
        mode_cmp = 'ALG'
    elif rhs == 'self':     # overlapping index views of the same tensor under noalias()
        soff = list(noalias_src)
        regions += [{'name': 'sidx', 'ety': 'i32', 'cells': n, 'kind': 'raw', 'role': 'in', 'init': 'ints', 'ints': soff}, it_region('st', ity, it_dims, soff)]
        wp, rp, wa, ra, rw, rr = ', const %s& st' % it_type(ity, it_dims), ', const int* sidx', ['st'], ['sidx'], 'a(st)', 'snap[k]'
        wid += '_self' + '-'.join(map(str, soff)); fam = 'index.noalias'
    lhs = call + ('.noalias()' if rhs == 'self' else '')
    wit = 'extern "C" void @W@(%s& a, %s%s){ %s %s %s; }' % (tensor_t(t, dims), params, wp, lhs, op, rw)
    body = 'for(int k=0;k<%d;k++){ %s& x = a[idx[k]]; %s y = %s; %s; }' % (n, ct, ct, rr, cop)
    if rhs == 'self':
        body = '%s snap[%d]; for(int k=0;k<%d;k++) snap[k]=a[sidx[k]]; %s' % (ct, n, n, body)
    ref = 'extern "C" void @R@(%s* a, const int* idx%s){ %s }' % (ct, rp, body)
    stages = [{'mod': 'wit', 'fn': '@W@', 'args': ['a'] + iargs + wa}, {'mod': 'ref', 'fn': '@R@', 'args': ['aref', 'idx'] + ra}]
    return Witness(wid + '_%s_%s' % (OPS[op], rhs), fam, pr, wit, ref, regions, stages, [{'kind': 'equal', 'a': 'a', 'b': 'aref', 'cells': prod(dims), 'mode': mode_cmp}])


def mk_mask(t, dims, op, rhs):
    """A(mask) op= rhs with the mask symbolic: one interpretation covers all 2^n masks"""
    ct = CTYPE[t]
    n = prod(dims)
    cop = {'=': 'x = y', '+=': 'x = x + y', '-=': 'x = x - y', '*=': 'x = x * y', '/=': 'x = x / y'}[op]
    regions = [treg('a', t, dims, 'inout'), rreg('aref', t, n, init='sym', ns='a'), {'name': 'm', 'ety': 'bool', 'cells': n, 'kind': 'tensor', 'role': 'in'}]
    mode = 'EXACT'
    if rhs == 'scalar':
        regions.append(rreg('s', t, 1, role='in', init='sym'))
        wp, rp, wa, ra, rw, rr = ', %s s' % ct, ', %s s' % ct, [{'scalar': 's'}], [{'scalar': 's'}], 's', 's'
        if op == '/=' and t in ('f32', 'f64'):
            mode = 'ALG'
    elif rhs == 'tensor':
        regions.append(treg('b', t, dims))
        wp, rp, wa, ra, rw, rr = ', const %s& b' % tensor_t(t, dims), ', const %s* b' % ct, ['b'], ['b'], 'b', 'b[k]'
    elif rhs in ('evalexpr', 'transexpr'):
        # right-hand sides that must be evaluated into a temporary first (separate requires_evaluation overloads of every operator)
        assert len(dims) == 2
        M, N = dims
        if rhs == 'evalexpr':
            regions += [treg('b', t, [M, 3]), treg('c', t, [3, N])]
            wp, rp = ', const %s& b, const %s& c' % (tensor_t(t, [M, 3]), tensor_t(t, [3, N])), ', const %s* b, const %s* c' % (ct, ct)
            rw = '(b % c)'
            rr = '(b[(k/%d)*3+0]*c[0*%d+(k%%%d)] + b[(k/%d)*3+1]*c[1*%d+(k%%%d)] + b[(k/%d)*3+2]*c[2*%d+(k%%%d)])' % ((N,) * 9)
        else:
            regions += [treg('b', t, [N, M]), treg('c', t, dims)]
            wp, rp = ', const %s& b, const %s& c' % (tensor_t(t, [N, M]), tensor_t(t, dims)), ', const %s* b, const %s* c' % (ct, ct)
            rw = '(trans(b) + c)'
            rr = '(b[(k%%%d)*%d+(k/%d)] + c[k])' % (N, M, N)
        wa, ra = ['b', 'c'], ['b', 'c']
        mode = 'ALG'
    else:
        regions += [treg('b', t, dims), treg('c', t, dims)]
        wp, rp, wa, ra, rw, rr = ', const %s& b, const %s& c' % (tensor_t(t, dims), tensor_t(t, dims)), ', const %s* b, const %s* c' % (ct, ct), ['b', 'c'], ['b', 'c'], '(b*c - b)', '(b[k]*c[k] - b[k])'
    wit = 'extern "C" void @W@(%s& a, const %s& m%s){ a(m) %s %s; }' % (tensor_t(t, dims), tensor_t('bool', dims), wp, op, rw)
    ref = 'extern "C" void @R@(%s* a, const bool* m%s){ for(int k=0;k<%d;k++) if(m[k]){ %s& x = a[k]; %s y = %s; %s; } }' % (ct, rp, n, ct, ct, rr, cop)
    stages = [{'mod': 'wit', 'fn': '@W@', 'args': ['a', 'm'] + wa}, {'mod': 'ref', 'fn': '@R@', 'args': ['aref', 'm'] + ra}]
    return Witness('mask_%s_%s_%s_%s' % (t, 'x'.join(map(str, dims)), OPS[op], rhs), 'mask.' + rhs, {'type': t, 'dims': list(dims), 'op': op, 'rhs': rhs}, wit, ref, regions, stages,
                   [{'kind': 'equal', 'a': 'a', 'b': 'aref', 'cells': n, 'mode': mode}])


def witnesses(tier, seed):
    rng = random.Random(seed * 1021 + 19)
    quick = tier == 'quick'
    W = []
    T3 = ['f64', 'f32', 'i32']
    ITS = ['i32', 'i64', 'u64']
    k = 0
    # reads: every index vector of length <= 4 over parents of size <= 6 (quick: length <= 3 exhaustively, length 4 sampled)
    for P in ([4, 6] if quick else [2, 3, 4, 5, 6]):
        for L in (1, 2, 3, 4):
            vecs = list(itertools.product(range(P), repeat=L))
            if quick and len(vecs) > 220:
                vecs = rng.sample(vecs, 220)
            for v in vecs:
                k += 1
                W.append(mk_index(T3[(P + L) % 3], [P], 'flat', ITS[(P + L) % 3], v))
    # longer vectors with repeats and unsorted order; width multiples
    for (P, L) in [(9, 8), (17, 16), (12, 5), (33, 9)] + ([] if quick else [(16, 16), (20, 17), (8, 32)]):
        for _ in range(12 if quick else 60):
            k += 1
            W.append(mk_index(T3[k % 3], [P], 'flat', ITS[k % 3], [rng.randrange(P) for _ in range(L)]))
    # writes with duplicate-free indices: every such vector of length <= 3 (quick) / 4 over small parents, all operators and rhs kinds
    for P in ([5] if quick else [3, 4, 5, 6]):
        for L in (1, 2, 3, 4):
            vecs = list(itertools.permutations(range(P), L))
            if len(vecs) > (120 if quick else 400):
                vecs = rng.sample(vecs, 120 if quick else 400)
            for v in vecs:
                k += 1
                W.append(mk_index(T3[k % 3], [P], 'flat', ITS[k % 3], v, mode='write', op=ALLOPS[k % 5], rhs=['scalar', 'tensor'][k % 2]))
    for (P, L) in [(9, 8), (17, 16), (33, 9)]:
        for _ in range(10 if quick else 50):
            k += 1
            W.append(mk_index(T3[k % 3], [P], 'flat', ITS[k % 3], rng.sample(range(P), L), mode='write', op=ALLOPS[k % 5], rhs=['scalar', 'tensor'][k % 2]))
    # overlapping index views of one tensor under noalias()
    for P in (6, 9):
        for _ in range(25 if quick else 120):
            k += 1
            L = rng.randrange(2, 5)
            dst = rng.sample(range(P), L); src = [rng.randrange(P) for _ in range(L)]
            W.append(mk_index(T3[k % 3], [P], 'flat', ITS[k % 3], dst, mode='write', op=ALLOPS[k % 5], rhs='self', noalias_src=src))
    # multi-dimensional index tensor (flat offsets into an nd parent)
    for dims, idims in [((3, 4), (2, 3)), ((2, 3, 4), (2, 2, 2))]:
        for _ in range(20 if quick else 80):
            k += 1
            n = prod(idims)
            W.append(mk_index(T3[k % 3], list(dims), 'nd', ITS[k % 3], [rng.randrange(prod(dims)) for _ in range(n)], it_dims=list(idims)))
            W.append(mk_index(T3[k % 3], list(dims), 'nd', ITS[k % 3], rng.sample(range(prod(dims)), n), it_dims=list(idims), mode='write', op=ALLOPS[k % 5], rhs=['scalar', 'tensor'][k % 2]))
    # one index tensor per axis, and mixtures with a fixed integer or a compile-time range
    for (M, N) in [(3, 4), (4, 5)] + ([] if quick else [(5, 9), (2, 8)]):
        for _ in range(40 if quick else 150):
            k += 1
            li, lj = rng.randrange(1, 4), rng.randrange(1, 4)
            it = [rng.randrange(M) for _ in range(li)]; jt = [rng.randrange(N) for _ in range(lj)]
            W.append(mk_index(T3[k % 3], [M, N], 'axes', ITS[k % 3], it, jt))
            it2 = rng.sample(range(M), min(li, M)); jt2 = rng.sample(range(N), min(lj, N))
            W.append(mk_index(T3[k % 3], [M, N], 'axes', ITS[k % 3], it2, jt2, mode='write', op=ALLOPS[k % 5], rhs=['scalar', 'tensor'][k % 2]))
        for _ in range(16 if quick else 60):
            k += 1
            li = rng.randrange(1, 4)
            W.append(mk_index(T3[k % 3], [M, N], 'it_int', ITS[k % 3], [rng.randrange(M) for _ in range(li)], extra={'k': rng.randrange(N)}))
            W.append(mk_index(T3[k % 3], [M, N], 'int_it', ITS[k % 3], [rng.randrange(N) for _ in range(li)], extra={'k': rng.randrange(M)}))
            W.append(mk_index(T3[k % 3], [M, N], 'it_fseq', ITS[k % 3], [rng.randrange(M) for _ in range(li)], extra={'fs': (rng.randrange(0, 2), N, rng.randrange(1, 3))}))
            W.append(mk_index(T3[k % 3], [M, N], 'fseq_it', ITS[k % 3], [rng.randrange(N) for _ in range(li)], extra={'fs': (rng.randrange(0, 2), M, rng.randrange(1, 3))}))
            W.append(mk_index(T3[k % 3], [M, N], 'it_int', ITS[k % 3], rng.sample(range(M), min(li, M)), extra={'k': rng.randrange(N)}, mode='write', op=ALLOPS[k % 5], rhs='scalar'))
            W.append(mk_index(T3[k % 3], [M, N], 'it_fseq', ITS[k % 3], rng.sample(range(M), min(li, M)), extra={'fs': (1, N, 2)}, mode='write', op=ALLOPS[k % 5], rhs=['scalar', 'tensor'][k % 2]))
    # the four mixed overloads, systematically: const and non-const parent reads, writes with every operator,
    # compile-time ranges with first in {0,1,2} and step in {1,2,3} (first > 0 together with step > 1 included)
    for (M, N) in [(5, 7)] + ([] if quick else [(4, 9), (7, 5)]):
        for F in (0, 1, 2):
            for S in (1, 2, 3):
                for form in ('it_fseq', 'fseq_it'):
                    ext = N if form == 'it_fseq' else M        # extent of the ranged axis
                    oth = M if form == 'it_fseq' else N        # extent of the indexed axis
                    for Lst in (ext, ext - 1):
                        k += 1
                        itv = [rng.randrange(oth) for _ in range(1 + k % 3)]
                        for nc in (False, True):
                            W.append(mk_index(T3[k % 3], [M, N], form, ITS[k % 3], itv, extra={'fs': (F, Lst, S)}, nonconst=nc))
                        W.append(mk_index(T3[k % 3], [M, N], form, ITS[k % 3], rng.sample(range(oth), 1 + k % 3), extra={'fs': (F, Lst, S)}, mode='write', op=ALLOPS[k % 5], rhs=['scalar', 'tensor'][k % 2]))
        for form in ('it_int', 'int_it'):
            ext = N if form == 'it_int' else M
            oth = M if form == 'it_int' else N
            for kk in range(ext):
                k += 1
                itv = [rng.randrange(oth) for _ in range(1 + k % 3)]
                for nc in (False, True):
                    W.append(mk_index(T3[k % 3], [M, N], form, ITS[k % 3], itv, extra={'k': kk}, nonconst=nc))
                W.append(mk_index(T3[k % 3], [M, N], form, ITS[k % 3], rng.sample(range(oth), 1 + k % 3), extra={'k': kk}, mode='write', op=ALLOPS[k % 5], rhs=['scalar', 'tensor'][k % 2]))
        for _ in range(12 if quick else 40):
            k += 1
            it = [rng.randrange(M) for _ in range(rng.randrange(1, 4))]; jt = [rng.randrange(N) for _ in range(rng.randrange(1, 4))]
            W.append(mk_index(T3[k % 3], [M, N], 'axes', ITS[k % 3], it, jt, nonconst=True))
    for P in (6, 9):
        for _ in range(12 if quick else 40):
            k += 1
            W.append(mk_index(T3[k % 3], [P], 'flat', ITS[k % 3], [rng.randrange(P) for _ in range(rng.randrange(1, 5))], nonconst=True))
    k += 1
    W.append(mk_index('f64', [2, 3, 4], 'nd', 'i32', [rng.randrange(24) for _ in range(8)], it_dims=[2, 2, 2], nonconst=True))
    # expression right-hand sides, elementwise and evaluation-requiring, for every operator and the main view forms
    for op in ALLOPS:
        for rhs in ('expr', 'evalexpr'):
            k += 1
            tt = ['f64', 'f32'][k % 2]
            W.append(mk_index(tt, [11], 'flat', ITS[k % 3], rng.sample(range(11), 5), mode='write', op=op, rhs=rhs))
            W.append(mk_index(tt, [9], 'flat', ITS[k % 3], rng.sample(range(9), 9), mode='write', op=op, rhs=rhs))
            if rhs == 'expr':     # the two-index-tensor view has no overload for right-hand sides needing evaluation (rejected at compile time everywhere)
                W.append(mk_index(tt, [4, 5], 'axes', ITS[k % 3], rng.sample(range(4), 3), rng.sample(range(5), 4), mode='write', op=op, rhs=rhs))
    # boolean masks: symbolic, all 2^n masks at once
    for dims in [[1], [3], [7], [8], [12], [3, 4], [4, 5]] + ([] if quick else [[16], [17], [2, 3, 3], [5, 6]]):
        for op in ALLOPS:
            for rhs in ('scalar', 'tensor', 'expr'):
                k += 1
                W.append(mk_mask(T3[k % 3], dims, op, rhs))
            if len(dims) == 2:
                for rhs in ('evalexpr', 'transexpr'):
                    k += 1
                    W.append(mk_mask(['f64', 'f32'][k % 2], dims, op, rhs))
    return group_sort(W)


def check(tier, seed):
    R = Runner('C19', tier, seed)
    try:
        W = witnesses(tier, seed)
        R.run_all(W, [Config(isa) for isa in ALL_ISAS], chunk=100)
        # the write paths of the index and mask views have separate SIMD-block loops under FASTOR_USE_VECTORISED_EXPR_ASSIGN
        Wm = [w for w in W if w.family.startswith('mask.') or (w.params or {}).get('mode') == 'write']
        R.run_all(Wm, [Config(isa, macros=('FASTOR_USE_VECTORISED_EXPR_ASSIGN',)) for isa in (('sse2', 'avx2', 'avx512') if tier == 'quick' else ALL_ISAS)], chunk=100)
        return finish('C19', tier, seed, R, 'proof',
                      rule='index tensors steer addresses and are constant sidecar cells: one compiled function per (parent shape, index length, Int type, element type, ISA), one interpretation per index vector — reads r = A(it) must copy exactly A[it[k]] in index order (repeats allowed; every vector of length <= 4 over parents of size <= 6, sampled in quick beyond 220 per length), writes A(it) op= rhs with duplicate-free indices are compared over the whole tensor with a reference that touches exactly those cells (frame), per-axis A(it0,it1), mixed A(it,int|fseq), multi-dimensional index tensors, int32/int64/size_t; overlapping index views under noalias(). Boolean masks are DATA and stay symbolic: A(mask) op= rhs must leave cell p as select(m_p, op(A_p, r_p), A_p) — all 2^n masks in one interpretation (gated merge).',
                      trusted=['clang-14 front end and -O2 code generation', 'LLVM IR semantics as modelled by irflow', 'x86 lane table', 'offset oracle gen/c19.py'],
                      floors=load_floors('C19', tier), assumptions=['index vectors outside the enumerated set are not explored'])
    finally:
        R.cleanup()
