# complex element types in elementwise expressions (C02: owning destination) and through maps (C20: TensorMap destination).
# The reference is written on the (re,im) pairs with real arithmetic, from the definition of complex +, -, *, unary minus.
from core import *

CPLX_KINDS = {
    # kind: (statement with destination D and operands a, b; reference body for element i on arrays A, B, R (R holds the old value of D); exact?)
    'set':    ('D = a;',            'r0 = A[2*i]; r1 = A[2*i+1];', True),
    'add':    ('D = a + b;',        'r0 = A[2*i] + B[2*i]; r1 = A[2*i+1] + B[2*i+1];', True),
    'sub':    ('D = a - b;',        'r0 = A[2*i] - B[2*i]; r1 = A[2*i+1] - B[2*i+1];', True),
    'neg':    ('D = -a;',           'r0 = -A[2*i]; r1 = -A[2*i+1];', True),
    'mul':    ('D = a * b;',        'r0 = A[2*i]*B[2*i] - A[2*i+1]*B[2*i+1]; r1 = A[2*i]*B[2*i+1] + A[2*i+1]*B[2*i];', False),
    'mixed':  ('D = a * b - a;',    'r0 = A[2*i]*B[2*i] - A[2*i+1]*B[2*i+1] - A[2*i]; r1 = A[2*i]*B[2*i+1] + A[2*i+1]*B[2*i] - A[2*i+1];', False),
    'sum3':   ('D = a + b + a;',    'r0 = A[2*i] + B[2*i] + A[2*i]; r1 = A[2*i+1] + B[2*i+1] + A[2*i+1];', False),
    'conj':   ('D = conj(a);',      'r0 = A[2*i]; r1 = -A[2*i+1];', True),
    'conjmix':('D = conj(a) + b;',  'r0 = A[2*i] + B[2*i]; r1 = -A[2*i+1] + B[2*i+1];', False),
    'iadd':   ('D += a;',           'r0 = R[2*i] + A[2*i]; r1 = R[2*i+1] + A[2*i+1];', True),
    'isub':   ('D -= a;',           'r0 = R[2*i] - A[2*i]; r1 = R[2*i+1] - A[2*i+1];', True),
    'imul':   ('D *= a;',           'r0 = R[2*i]*A[2*i] - R[2*i+1]*A[2*i+1]; r1 = R[2*i]*A[2*i+1] + R[2*i+1]*A[2*i];', False),
    'iadd_e': ('D += a - b;',       'r0 = R[2*i] + (A[2*i] - B[2*i]); r1 = R[2*i+1] + (A[2*i+1] - B[2*i+1]);', False),
}


def mk_cplx(t, dims, kind, dest):
    """dest: 'tensor' (owning Tensor) or 'map' (TensorMap over a raw buffer aligned to alignof(T) only)"""
    cell, per = CELL[t]
    assert per == 2
    ct, cc = CTYPE[t], CTYPE[cell]
    n = prod(dims)
    stmt, ref, exact = CPLX_KINDS[kind]
    tt = tensor_t(t, dims)
    if dest == 'tensor':
        wit = 'extern "C" void @W@(const %s& a, const %s& b, %s& r){ %s }' % (tt, tt, tt, stmt.replace('D', 'r'))
        dreg = treg('r', t, dims, 'inout')
    else:
        mt = 'TensorMap<%s%s>' % (ct, ''.join(',%d' % d for d in dims))
        wit = 'static_assert(sizeof(%s) > 0, "complete type");\nextern "C" void @W@(const %s& a, const %s& b, %s* r){ %s m(r); %s }' % (tt, tt, tt, ct, mt, stmt.replace('D', 'm'))
        dreg = rreg('r', t, n, role='inout', init='sym')
    refc = ('extern "C" void @R@(const %s* A, const %s* B, %s* R){ for(int i=0;i<%d;i++){ %s r0, r1; %s R[2*i] = r0; R[2*i+1] = r1; } }' % (cc, cc, cc, n, cc, ref))
    regions = [treg('a', t, dims), treg('b', t, dims), dreg, rreg('rref', t, n, init='sym', ns='r')]
    stages = [{'mod': 'wit', 'fn': '@W@', 'args': ['a', 'b', 'r']}, {'mod': 'ref', 'fn': '@R@', 'args': ['a', 'b', 'rref']}]
    return Witness('cplx_%s_%s_%s_%s' % (dest, t, 'x'.join(map(str, dims)), kind), ('expr.complex.' if dest == 'tensor' else 'map.complex.') + kind,
                   {'type': t, 'dims': list(dims), 'kind': kind, 'dest': dest}, wit, refc, regions, stages,
                   [{'kind': 'equal', 'a': 'r', 'b': 'rref', 'cells': 2 * n, 'mode': 'EXACT' if exact else 'ALG'}])


def cplx_witnesses(dest, tier):
    W = []
    sizes = [[1], [2], [3], [4], [5], [7], [8], [9], [16], [17], [3, 3], [2, 5]] + ([] if tier == 'quick' else [[6], [12], [15], [31], [33], [4, 4], [2, 3, 4]])
    for dims in sizes:
        for k, kind in enumerate(CPLX_KINDS):
            for t in (('c64', 'c128') if (tier != 'quick' or prod(dims) in (8, 9, 17) or k % 2 == 0) else (['c64', 'c128'][(k + prod(dims)) % 2],)):
                W.append(mk_cplx(t, dims, kind, dest))
    return W
