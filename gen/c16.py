# C16 — reductions, predicates and scalar-valued functions (DESIGN.md §5 C16)
from core import *
from c04 import group_sort
import itertools, random


def det_ref(n, ct):
    """Leibniz expansion written out from the definition"""
    terms = []
    for p in itertools.permutations(range(n)):
        inv = sum(1 for i in range(n) for j in range(i + 1, n) if p[i] > p[j])
        terms.append(('-' if inv % 2 else '+') + '*'.join('a[%d]' % (i * n + p[i]) for i in range(n)))
    return '%s d = 0; d = d %s; *r = d;' % (ct, ' '.join(terms))


def mk(t, dims, fn, arg='tensor'):
    ct = CTYPE[t]
    n = prod(dims)
    A = {'tensor': 'a', 'expr': '(a+b)', 'evalexpr': '(a%b)'}[arg]
    Aref = {'tensor': 'a[i]', 'expr': '(a[i]+b[i])'}.get(arg)
    rt = t
    mode = 'ALG'
    pre = ''
    if arg == 'evalexpr':      # square matrices: element i of a%b
        N = dims[0]
        pre = '%s ab[%d]; for(int p=0;p<%d;p++) for(int q=0;q<%d;q++){ %s s=0; for(int k=0;k<%d;k++) s+=a[p*%d+k]*b[k*%d+q]; ab[p*%d+q]=s; }' % (ct, n, N, N, ct, N, N, N, N)
        Aref = 'ab[i]'
    if fn in ('msum', 'mproduct'):    # the member forms a.sum(), a.product() (separate kernels in TensorMethods.h)
        assert arg == 'tensor'
        call = 'a.%s()' % fn[1:]
        body = ('%s h=0; for(int i=0;i<%d;i++) h+=a[i]; *r=h;' if fn == 'msum' else '%s h=1; for(int i=0;i<%d;i++) h*=a[i]; *r=h;') % (ct, n)
    elif fn == 'sum':
        call = 'sum(%s)' % A; body = '%s h=0; for(int i=0;i<%d;i++) h+=%s; *r=h;' % (ct, n, Aref)
    elif fn == 'product':
        call = 'product(%s)' % A; body = '%s h=1; for(int i=0;i<%d;i++) h*=%s; *r=h;' % (ct, n, Aref)
    elif fn == 'min':
        call = 'min(%s)' % A; body = '%s h=%s; for(int i=1;i<%d;i++) h = (%s < h) ? %s : h; *r=h;' % (ct, Aref.replace('[i]', '[0]'), n, Aref, Aref); mode = 'MINMAX'
    elif fn == 'max':
        call = 'max(%s)' % A; body = '%s h=%s; for(int i=1;i<%d;i++) h = (%s > h) ? %s : h; *r=h;' % (ct, Aref.replace('[i]', '[0]'), n, Aref, Aref); mode = 'MINMAX'
    elif fn == 'norm':
        call = 'norm(%s)' % A; body = '%s h=0; for(int i=0;i<%d;i++) h+=%s*%s; *r=std::sqrt(h);' % (ct, n, Aref, Aref)
    elif fn == 'inner':
        call = 'inner(a,b)'; body = '%s h=0; for(int i=0;i<%d;i++) h+=a[i]*b[i]; *r=h;' % (ct, n)
    elif fn == 'trace':
        N = dims[0]; call = 'trace(%s)' % A
        body = '%s h=0; for(int i=0;i<%d;i+=%d) h+=%s; *r=h;' % (ct, n, N + 1, Aref)
    elif fn in ('det', 'determinant'):
        N = dims[0]; call = '%s(a)' % fn; body = det_ref(N, ct)
    elif fn in ('all_of', 'any_of', 'none_of'):
        rt = 'bool'; mode = 'EXACT'
        cmpop = {'tensor': 'a < b', 'expr': '(a+b) <= a*b'}[arg if arg != 'evalexpr' else 'tensor']
        call = '%s(%s)' % (fn, cmpop)
        cref = {'tensor': 'a[i] < b[i]', 'expr': '(a[i]+b[i]) <= a[i]*b[i]'}[arg if arg != 'evalexpr' else 'tensor']
        if fn == 'all_of':
            body = 'bool h=true; for(int i=0;i<%d;i++) if(!(%s)) h=false; *r=h;' % (n, cref)
        elif fn == 'any_of':
            body = 'bool h=false; for(int i=0;i<%d;i++) if(%s) h=true; *r=h;' % (n, cref)
        else:
            body = 'bool h=true; for(int i=0;i<%d;i++) if(%s) h=false; *r=h;' % (n, cref)
    elif fn == 'isequal':
        rt = 'bool'; mode = 'EXACT'; call = 'isequal(a,b,tol)'
        body = 'bool h=true; for(int i=0;i<%d;i++) if(!(std::abs(a[i]-b[i]) < (%s)tol)) h=false; *r=h;' % (n, ct)   # isequal compares in the element type
    elif fn == 'isorthogonal':   # isequal(A^T A, I, tol), compared in the element type
        rt = 'bool'; mode = 'ALG'; N = dims[0]; call = 'isorthogonal(a,tol)'
        body = ('bool h=true; for(int i=0;i<%d;i++) for(int j=0;j<%d;j++){ %s g=0; for(int k=0;k<%d;k++) g += a[k*%d+i]*a[k*%d+j]; if(!(std::abs(g - (%s)(i==j?1:0)) < (%s)tol)) h=false; } *r=h;'
                % (N, N, ct, N, N, N, ct, ct))
    elif fn == 'issymmetric':
        rt = 'bool'; mode = 'EXACT'; N = dims[0]; call = 'issymmetric(a,tol)'
        body = 'bool h=true; for(int i=0;i<%d;i++) for(int j=0;j<%d;j++) if((double)std::abs(a[i*%d+j]-a[j*%d+i]) > tol) h=false; *r=h;' % (N, N, N, N)
    rct = CTYPE[rt]
    tolp = ', double tol' if fn in ('isequal', 'issymmetric', 'isorthogonal') else ''
    wit = 'extern "C" void @W@(const %s& a, const %s& b%s, %s* r){ *r = %s; }' % (tensor_t(t, dims), tensor_t(t, dims), tolp, rct, call)
    ref = 'extern "C" void @R@(const %s* a, const %s* b%s, %s* r){ %s %s }' % (ct, ct, tolp, rct, pre, body)
    regions = [treg('a', t, dims), treg('b', t, dims), rreg('r', rt, 1, role='out'), rreg('rref', rt, 1)]
    targ = []
    if tolp:
        regions.append({'name': 'tol', 'ety': 'f64', 'cells': 1, 'kind': 'raw', 'role': 'in', 'init': 'sym', 'positive': True})
        targ = [{'scalar': 'tol'}]
    stages = [{'mod': 'wit', 'fn': '@W@', 'args': ['a', 'b'] + targ + ['r']}, {'mod': 'ref', 'fn': '@R@', 'args': ['a', 'b'] + targ + ['rref']}]
    return Witness('red_%s_%s_%s_%s' % (fn, arg, t, 'x'.join(map(str, dims))), 'reduce.' + fn + '.' + arg, {'type': t, 'dims': list(dims), 'fn': fn, 'arg': arg}, wit, ref, regions, stages,
                   [{'kind': 'equal', 'a': 'r', 'b': 'rref', 'cells': 1, 'mode': mode}])


def witnesses(tier, seed):
    quick = tier == 'quick'
    W = []
    sizes = list(range(1, 18 if quick else 36))
    for t in ('f32', 'f64', 'i32', 'i64'):
        fp = t in ('f32', 'f64')
        for n in sizes:
            for fn in ('sum', 'product', 'min', 'max', 'inner', 'msum', 'mproduct') + (('norm',) if fp else ()):
                W.append(mk(t, [n], fn))
                if fn.startswith('m') and fn not in ('min', 'max'):
                    continue
                if n % 3 == seed % 3 or not quick:
                    if fn != 'inner' and not (fn == 'product' and n > 14):   # the product of n binomials has 2^n terms
                        W.append(mk(t, [n], fn, 'expr'))
        # beyond 8 vector widths the reductions of plain tensors switch to 8-fold unrolled kernels (backend/norm.h and siblings):
        # 33 / 65 / 129 elements are just beyond 8 widths of 4 / 8 / 16 lanes, 70 and 140 leave a remainder
        for n in ((33, 65, 70, 129, 140) if fp else (65, 140)):
            for fn in ('sum', 'inner', 'msum') + (('norm',) if fp else ()):
                W.append(mk(t, [n], fn))
        if fp:
            W.append(mk(t, [9, 9], 'norm')); W.append(mk(t, [12, 12], 'norm'))
        for n in ([1, 2, 3, 5, 8, 9, 12] if quick else range(1, 13)):
            for fn in ('all_of', 'any_of', 'none_of'):
                W.append(mk(t, [n], fn)); W.append(mk(t, [n], fn, 'expr'))
            if fp:
                W.append(mk(t, [n], 'isequal'))
        for N in (1, 2, 3, 4, 5, 8):
            W.append(mk(t, [N, N], 'trace')); W.append(mk(t, [N, N], 'trace', 'expr'))
            if N <= 4 and fp:
                W.append(mk(t, [N, N], 'trace', 'evalexpr')); W.append(mk(t, [N, N], 'sum', 'evalexpr')); W.append(mk(t, [N, N], 'min', 'evalexpr')); W.append(mk(t, [N, N], 'max', 'evalexpr'))
                W.append(mk(t, [N, N], 'issymmetric'))
                if N <= 4:
                    W.append(mk(t, [N, N], 'isorthogonal'))
            if 2 <= N <= 4 and fp:   # determinant of a 1x1 tensor is not offered by the library (does not compile in any configuration)
                W.append(mk(t, [N, N], 'determinant')); W.append(mk(t, [N, N], 'det'))
        for dims in ([2, 3], [3, 4, 2], [5, 7]):
            for fn in ('sum', 'min', 'max'):
                W.append(mk(t, dims, fn))
    return group_sort(W)


def check(tier, seed):
    R = Runner('C16', tier, seed)
    try:
        R.run_all(witnesses(tier, seed), [Config(isa) for isa in ALL_ISAS], chunk=60)
        return finish('C16', tier, seed, R, 'other',
                      rule='scalar-valued functions of tensors and of lazy expressions (element-wise and evaluation-requiring) with all elements symbolic, compared with a plain fold written from the definition: sum/product/inner/trace/norm as polynomial identities (every element once; norm = sqrt of the sum of squares), min/max as MINMAX sets over exactly the elements (the fold identity lowest()/max() is the only constant admitted; any other seed is an extra member), determinant n<=4 against the Leibniz expansion, predicates all_of/any_of/none_of/isequal/issymmetric as boolean functions of the comparison atoms decided by Shannon expansion (none_of == !any_of falls out). Sizes 1..17 (thorough 1..35) cover every residue modulo every vector width on all seven ISAs.',
                      trusted=['clang-14 front end and -O2 code generation', 'LLVM IR semantics as modelled by irflow', 'x86 lane table', 'reference folds emitted by gen/c16.py'],
                      floors=load_floors('C16', tier), assumptions=['determinants for n > 4 pivot on data and are not analysed here', 'min/max: NaN ordering and the sign of zero are not distinguished; inputs finite', 'the n*eps*sum|x| rounding clause is discharged structurally (no fast-math flags, every element enters once)'],
                      extra_cov={'not_decided': 'determinant<LU|QR> for n>4 (data-dependent pivot search: n=5 exceeds the budget of the case split)'})
    finally:
        R.cleanup()
