# C10 — inverse(A) times A is the identity (exact-arithmetic clause; DESIGN.md §5 C10, §6)
from core import *
from linalg_common import *
from c04 import group_sort

STRATS = ['SimpleInv', 'BlockLU', 'SimpleLU']


def mk(t, n, strat, band=None, arg='tensor'):
    ct = CTYPE[t]
    tt = tensor_t(t, [n, n])
    wit = 'extern "C" void @W@(const %s& A, %s& X){ X = inverse<InvCompType::%s>(%s); }' % (tt, tt, strat, 'A' if arg == 'tensor' else 'A+0')
    ref = pre_ldu(ct, n, band) + '\n' + post_residual(ct, n)
    regions = ldu_regions(t, n) + [treg('A', t, [n, n], 'in', init='undef'), treg('X', t, [n, n], 'out'), rreg('R1', t, n * n), rreg('R2', t, n * n)]
    stages = [{'mod': 'ref', 'fn': '@R@pre', 'args': ['lam', 'del', 'mu', 'A']}, {'mod': 'wit', 'fn': '@W@', 'args': ['A', 'X']}, {'mod': 'ref', 'fn': '@R@post', 'args': ['A', 'X', 'R1', 'R2']}]
    obl = [{'kind': 'zero', 'region': 'R1', 'cells': n * n}, {'kind': 'zero', 'region': 'R2', 'cells': n * n}]
    return Witness('inv_%s_%s_%d%s%s' % (t, strat, n, band_tag(band), '' if arg == 'tensor' else '_expr'), 'inverse.' + strat + ('' if arg == 'tensor' else '.expr') + ('.banded' if isinstance(band, int) else ('.' + band if band else '.full')), {'type': t, 'n': n, 'strategy': strat, 'band': band}, wit, ref, regions, stages, obl,
                   extra={'poly_cap': 600000, 'max_steps': 200000000})


def mk_plain(t, n, strat):
    """structure on plain symbolic input: every element of X written, reads inside A, alignment, no allocation, dependence on all of A"""
    tt = tensor_t(t, [n, n])
    wit = 'extern "C" void @W@(const %s& A, %s& X){ X = inverse<InvCompType::%s>(A); }' % (tt, tt, strat)
    obl = [{'kind': 'depends', 'region': 'X', 'cell': c, 'ns': 'A', 'cells': list(range(n * n))} for c in (0, n * n - 1, n + 1 if n > 1 else 0)]
    if t == 'f64':
        obl.append({'kind': 'no_narrowing', 'region': 'X', 'cells': n * n})
    return Witness('invplain_%s_%s_%d' % (t, strat, n), 'inverse.' + strat + '.structure', {'type': t, 'n': n, 'strategy': strat}, wit, '', [treg('A', t, [n, n]), treg('X', t, [n, n], 'out')],
                   [{'mod': 'wit', 'fn': '@W@', 'args': ['A', 'X']}], obl)


def mk_tinverse(t, n, uplo, band=None):
    ct = CTYPE[t]
    tt = tensor_t(t, [n, n])
    wit = 'extern "C" void @W@(const %s& A, %s& X){ X = tinverse<InvCompType::SimpleInv, UpLoType::%s>(A); }' % (tt, tt, uplo)
    # A = D U(mu) (upper) or L(lam) D... built with the same pre stage and one factor left trivial
    zl = ', '.join(['0'] * 1)
    if uplo == 'Upper':
        pre = 'extern "C" void @R@pre(const %s* lam, const %s* del, const %s* mu, %s* A){ for(int i=0;i<%d;i++) for(int j=0;j<%d;j++) A[i*%d+j] = (i==j) ? del[i] : ((i<j && j-i<=%d) ? del[i]*mu[i*%d+j] : (%s)0); }' % (ct, ct, ct, ct, n, n, n, band or n, n, ct)
    else:   # UniLower: unit lower triangular, the only lower form the library offers
        pre = 'extern "C" void @R@pre(const %s* lam, const %s* del, const %s* mu, %s* A){ for(int i=0;i<%d;i++) for(int j=0;j<%d;j++) A[i*%d+j] = (i==j) ? (%s)1 : ((i>j && i-j<=%d) ? lam[i*%d+j] : (%s)0); }' % (ct, ct, ct, ct, n, n, n, ct, band or n, n, ct)
    ref = pre + '\n' + post_residual(ct, n)
    regions = ldu_regions(t, n) + [treg('A', t, [n, n], 'in', init='undef'), treg('X', t, [n, n], 'out'), rreg('R1', t, n * n), rreg('R2', t, n * n)]
    stages = [{'mod': 'ref', 'fn': '@R@pre', 'args': ['lam', 'del', 'mu', 'A']}, {'mod': 'wit', 'fn': '@W@', 'args': ['A', 'X']}, {'mod': 'ref', 'fn': '@R@post', 'args': ['A', 'X', 'R1', 'R2']}]
    zeros = [i * n + j for i in range(n) for j in range(n) if (uplo == 'Upper' and i > j) or (uplo == 'UniLower' and i < j)]
    obl = [{'kind': 'zero', 'region': 'R1', 'cells': n * n}, {'kind': 'zero', 'region': 'R2', 'cells': n * n}]
    return Witness('tinv_%s_%s_%d%s' % (t, uplo, n, band_tag(band)), 'tinverse.' + uplo + ('.banded' if band else ''), {'type': t, 'n': n, 'uplo': uplo, 'band': band}, wit, ref, regions, stages, obl, extra={'poly_cap': 600000, 'max_ms': 400000})


def witnesses(tier, seed):
    quick = tier == 'quick'
    W = []
    for t in ('f64', 'f32'):
        for strat in STRATS:
            for n in ([1, 2, 3, 4, 5, 6, 7] if quick else [1, 2, 3, 4, 5, 6, 7, 8]):
                if t == 'f32' and n > 6 and quick:
                    continue
                W.append(mk(t, n, strat))
            for n in ([8, 9, 12, 16, 17, 33, 40] if quick else [8, 9, 10, 11, 12, 16, 17, 32, 33, 40, 64, 65]):
                if t == 'f32' and quick and n not in (9, 17):
                    continue
                W.append(mk(t, n, strat, band=1))
                if n <= 40 and (quick or n <= 17 or t == 'f64'):   # the dense rank-one blocks make larger arrow cases exceed the memory of 16 parallel interpreters
                    W.append(mk(t, n, strat, band='arrow'))
                if n <= 17:
                    W.append(mk(t, n, strat, band='arrow1'))
                if n <= 12:
                    W.append(mk(t, n, strat, band='hub'))
            for n in (1, 2, 3, 4, 5, 8, 9, 16, 17):
                W.append(mk_plain(t, n, strat))
            for n in (3, 5, 9):
                W.append(mk(t, n, strat, band=(None if n <= 5 else 1), arg='expr'))
        for uplo in ('Upper', 'UniLower'):
            for n in ([2, 3, 4, 5, 8, 9] if quick else [2, 3, 4, 5, 6, 7, 8, 9, 12, 16, 17]):
                W.append(mk_tinverse(t, n, uplo))
            # every size class of the recursive triangular inverse (<=4, <=8, <=16, <=32, <=64, <=128, <=256) on bidiagonal operands
            for n in ([16, 17, 32, 33, 65] if quick else [16, 17, 32, 33, 64, 65, 128, 129]):   # the library offers no triangular inverse beyond 256 (no dispatcher overload: rejected at compile time)
                if t == 'f32' and n not in (17, 33):
                    continue
                W.append(mk_tinverse(t, n, uplo, band=1))
    # the pivoted strategies end to end: the pivot search is interpreted symbolically (row indices become finite choices steered by
    # the comparisons |a_ij| > |a_kj|), every result cell is a case tree, and A*X - I == 0 == X*A - I is decided in every case
    for t in ('f64', 'f32'):
        for strat in ('SimpleInvPiv', 'SimpleLUPiv', 'BlockLUPiv'):
            for n in [1, 2, 3]:   # n = 4 exceeds the case-split budget (24 pivot orders x 4x4 Laurent polynomials): measured, dropped
                if t == 'f32' and n > (2 if quick else 3):
                    continue
                w = mk(t, n, strat); w.family = 'inverse.' + strat + '.pivoted'; w.extra['max_ms'] = 400000
                W.append(w)
                if t == 'f64' and n >= 2:     # expression operands: separate overloads that must forward the strategy
                    w = mk(t, n, strat, arg='expr'); w.family = 'inverse.' + strat + '.pivoted.expr'; w.extra['max_ms'] = 400000
                    W.append(w)
    W += pivot_helper_witnesses(['colwise'], tier)
    return group_sort(W)


def check(tier, seed):
    R = Runner('C10', tier, seed)
    try:
        cfgs = [Config(isa) for isa in (ALL_ISAS if tier != 'quick' else ['scalar', 'sse2', 'avx', 'avx2', 'avx512'])]
        R.run_all(witnesses(tier, seed), cfgs, chunk=6)
        return finish('C10', tier, seed, R, 'other',
                      rule='exact-arithmetic clause only: the input region is initialised (by an interpreted reference stage) to A = L(lam) D(del) U(mu) with symbolic unit-triangular L, U and symbolic diagonal D, which parametrises every matrix with non-singular leading blocks (the domain of the unpivoted strategies); inverse<SimpleInv|BlockLU|SimpleLU>(A) is interpreted and A*X - I and X*A - I must normalise to the zero Laurent polynomial in every cell (every divisor is a monomial in del, so no atom survives). Full parametrisation for n <= 7 (thorough 8), unit-bidiagonal L, U (banded) for larger sizes across the recursion boundaries; triangular inverse (Upper with A = D U, UniLower with A = L) by the same identity; on plain symbolic input: every element written, reads inside A, alignment, no allocation, syntactic dependence on all of A.',
                      trusted=['clang-14 front end and -O2 code generation', 'LLVM IR semantics as modelled by irflow', 'x86 lane table', 'reference stages in gen/linalg_common.py'],
                      floors=load_floors('C10', tier),
                      assumptions=['exact (real) arithmetic: the n*eps*cond(A) rounding bound of the property is NOT decided (DESIGN.md §6)', 'pivoted strategies: the pivot search is interpreted symbolically and every case decided for n <= 3 only; beyond that only the pivot-helper contracts under constant permutations apply'],
                      extra_cov={'not_decided': 'floating-point residual bound; pivoted strategies end to end for n > 3'})
    finally:
        R.cleanup()
