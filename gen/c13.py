# C13 — QR factors are orthonormal and upper triangular and reproduce the matrix (exact-arithmetic clause on the
# families A = Q0*R0; DESIGN.md §5 C13, §6)
from core import *
from c04 import group_sort
from fractions import Fraction as Fr


def q0_matrix(n, kind):
    """constant rational orthogonal matrices"""
    Q = [[Fr(0)] * n for _ in range(n)]
    if kind == 'identity':
        for i in range(n):
            Q[i][i] = Fr(1)
    elif kind == 'reflect':    # an improper orthogonal matrix (determinant -1): a reflection of the 3-4-5 rotation
        b = 0
        if n >= 2:
            c, sn = Fr(3, 5), Fr(4, 5)
            Q[0][0], Q[0][1], Q[1][0], Q[1][1] = c, sn, sn, -c
            b = 2
        else:
            Q[0][0] = Fr(-1); b = 1
        for i in range(b, n):
            Q[i][i] = Fr(1)
    elif kind == 'dense237':   # a 3x3 orthogonal matrix without zero or equal-magnitude entries in a column: every pivot order (also the
        D = [[2, 3, 6], [3, -6, 2], [6, 2, -3]]      # 3-cycles, which are not their own inverse) is reachable by the pivot search
        for i in range(min(3, n)):
            for j in range(min(3, n)):
                Q[i][j] = Fr(D[i][j], 7)
        for i in range(3, n):
            Q[i][i] = Fr(1)
    elif kind == 'hadamard':
        H = [[1, 1, 1, 1], [1, -1, 1, -1], [1, 1, -1, -1], [1, -1, -1, 1]]
        b = 0
        while b + 4 <= n:
            for i in range(4):
                for j in range(4):
                    Q[b + i][b + j] = Fr(H[i][j], 2)
            b += 4
        for i in range(b, n):
            Q[i][i] = Fr(1)
    elif kind in ('rot345', 'rot51213', 'mixed'):
        b = 0; k = 0
        while b + 2 <= n:
            c, s = (Fr(3, 5), Fr(4, 5)) if (kind == 'rot345' or (kind == 'mixed' and k % 2 == 0)) else (Fr(5, 13), Fr(12, 13))
            Q[b][b], Q[b][b + 1], Q[b + 1][b], Q[b + 1][b + 1] = c, -s, s, c
            b += 2; k += 1
        for i in range(b, n):
            Q[i][i] = Fr(1)
    elif kind == 'kron':      # (1/2 Hadamard4) x rotation(3/5,4/5): n must be 8
        H = [[1, 1, 1, 1], [1, -1, 1, -1], [1, 1, -1, -1], [1, -1, -1, 1]]
        Rm = [[Fr(3, 5), Fr(-4, 5)], [Fr(4, 5), Fr(3, 5)]]
        for i in range(4):
            for j in range(4):
                for p in range(2):
                    for q in range(2):
                        Q[2 * i + p][2 * j + q] = Fr(H[i][j], 2) * Rm[p][q]
    # sanity: orthogonality, exactly
    for i in range(n):
        for j in range(n):
            assert sum(Q[k][i] * Q[k][j] for k in range(n)) == (1 if i == j else 0)
    return Q


def mk(t, n, kind, strat='MGSR', det=False):
    ct = CTYPE[t]
    tt = tensor_t(t, [n, n])
    Q = q0_matrix(n, kind)
    rats = []
    for i in range(n):
        for j in range(n):
            rats += [Q[i][j].numerator, Q[i][j].denominator]
    pre = ('extern "C" void @R@pre(const %s* Q0, const %s* rd, const %s* ru, %s* A, %s* Re){ for(int i=0;i<%d;i++) for(int j=0;j<%d;j++){ Re[i*%d+j] = (i==j) ? rd[i] : (i<j ? ru[i*%d+j] : (%s)0); } '
           'for(int i=0;i<%d;i++) for(int j=0;j<%d;j++){ %s s=0; for(int k=0;k<=j;k++) s = s + Q0[i*%d+k]*Re[k*%d+j]; A[i*%d+j]=s; } }'
           % (ct, ct, ct, ct, ct, n, n, n, n, ct, n, n, ct, n, n, n))
    regions = [{'name': 'Q0', 'ety': CELL[t][0], 'cells': n * n, 'kind': 'raw', 'role': 'in', 'init': 'rats', 'ints': rats},
               rreg('rd', t, n, role='in', init='sym', positive=True), rreg('ru', t, n * n, role='in', init='sym'),
               treg('A', t, [n, n], 'in', init='undef'), rreg('Re', t, n * n)]
    stages = [{'mod': 'ref', 'fn': '@R@pre', 'args': ['Q0', 'rd', 'ru', 'A', 'Re']}]
    if not det:
        wit = 'extern "C" void @W@(const %s& A, %s& Q, %s& R){ qr<QRCompType::%s>(A, Q, R); }' % (tt, tt, tt, strat)
        regions += [treg('Q', t, [n, n], 'out'), treg('R', t, [n, n], 'out')]
        stages.append({'mod': 'wit', 'fn': '@W@', 'args': ['A', 'Q', 'R']})
        obl = [{'kind': 'equal', 'a': 'Q', 'b': 'Q0', 'cells': n * n, 'mode': 'ALG'}, {'kind': 'equal', 'a': 'R', 'b': 'Re', 'cells': n * n, 'mode': 'ALG'}]
        fam = 'qr.' + strat + '.' + kind
    else:
        wit = 'extern "C" void @W@(const %s& A, %s* d){ *d = determinant<DetCompType::QR>(A); }' % (tt, ct)
        import fractions
        def fdet(M):
            M = [r[:] for r in M]; d = fractions.Fraction(1)
            for c in range(len(M)):
                piv = next((r for r in range(c, len(M)) if M[r][c] != 0), None)
                if piv is None:
                    return fractions.Fraction(0)
                if piv != c:
                    M[c], M[piv] = M[piv], M[c]; d = -d
                d *= M[c][c]
                for r in range(c + 1, len(M)):
                    f = M[r][c] / M[c][c]
                    for k in range(c, len(M)):
                        M[r][k] -= f * M[c][k]
            return d
        dq = fdet(Q); assert dq in (1, -1)
        post = 'extern "C" void @R@post(const %%s* rd, %%s* d){ %%s p=%d; for(int i=0;i<%%d;i++) p = p*rd[i]; *d = p; }' % int(dq) % (ct, ct, ct, n)
        pre = pre + '\n' + post
        regions += [rreg('d', t, 1, role='out'), rreg('de', t, 1)]
        stages += [{'mod': 'wit', 'fn': '@W@', 'args': ['A', 'd']}, {'mod': 'ref', 'fn': '@R@post', 'args': ['rd', 'de']}]
        obl = [{'kind': 'equal', 'a': 'd', 'b': 'de', 'cells': 1, 'mode': 'ALG'}]
        fam = 'qr.det.' + kind
    return Witness('qr_%s_%s_%s_%d%s' % (t, strat, kind, n, '_det' if det else ''), fam, {'type': t, 'n': n, 'q0': kind, 'strategy': strat, 'det': det}, wit, pre, regions, stages, obl, extra={'poly_cap': 400000, 'max_ms': 20000})


def mk_pivoted(t, n, kind, enc, arg='tensor'):
    """qr<MGSRPiv>(A,Q,R,P) on A = Q0*R0 with the pivot search interpreted symbolically: in every case of the search the row-permuted
    input is (Pi Q0) R0, so by uniqueness R == R0, Q(i,:) == Q0(P(i),:), and P is a bijection (vector) / permutation matrix"""
    ct = CTYPE[t]; tt = tensor_t(t, [n, n])
    Q = q0_matrix(n, kind)
    rats = []
    for i in range(n):
        for j in range(n):
            rats += [Q[i][j].numerator, Q[i][j].denominator]
    pre = ('extern "C" void @R@pre(const %s* Q0, const %s* rd, const %s* ru, %s* A, %s* Re){ for(int i=0;i<%d;i++) for(int j=0;j<%d;j++){ Re[i*%d+j] = (i==j) ? rd[i] : (i<j ? ru[i*%d+j] : (%s)0); } '
           'for(int i=0;i<%d;i++) for(int j=0;j<%d;j++){ %s s=0; for(int k=0;k<=j;k++) s = s + Q0[i*%d+k]*Re[k*%d+j]; A[i*%d+j]=s; } }'
           % (ct, ct, ct, ct, ct, n, n, n, n, ct, n, n, ct, n, n, n))
    Pt = 'Tensor<size_t,%d>' % n if enc == 'V' else tt
    # the overloads taking an expression evaluate it and pivot the temporary in place (a different helper from the tensor overloads)
    wit = 'extern "C" void @W@(const %s& A, %s& Q, %s& R, %s& P){ qr<QRCompType::MGSRPiv>(%s, Q, R, P); }' % (tt, tt, tt, Pt, 'A' if arg == 'tensor' else 'A+0')
    if enc == 'V':
        post = ('extern "C" void @R@post(const %s* Q0, const %s* Q, const unsigned long* P, %s* D, long* B){ for(int i=0;i<%d;i++) for(int j=0;j<%d;j++) D[i*%d+j] = Q[i*%d+j] - Q0[P[i]*%d+j]; '
                'for(int i=0;i<%d;i++){ long c=0; for(int j=0;j<%d;j++) c += (P[j]==(unsigned long)i); B[i] = c - 1; } }' % (ct, ct, ct, n, n, n, n, n, n, n))
        preg = {'name': 'P', 'ety': 'i64', 'cells': n, 'kind': 'tensor', 'role': 'out', 'init': 'undef'}
        breg = {'name': 'B', 'ety': 'i64', 'cells': n, 'kind': 'raw', 'role': 'scratch', 'init': 'undef'}; bn = n
    else:
        post = ('extern "C" void @R@post(const %s* Q0, const %s* Q, const %s* P, %s* D, %s* B){ for(int i=0;i<%d;i++) for(int j=0;j<%d;j++){ %s s=0; for(int k=0;k<%d;k++) s += P[i*%d+k]*Q0[k*%d+j]; D[i*%d+j] = Q[i*%d+j] - s; } '
                'for(int i=0;i<%d;i++) for(int j=0;j<%d;j++){ %s s=0; for(int k=0;k<%d;k++) s += P[i*%d+k]*P[j*%d+k]; B[i*%d+j] = s - (i==j?1:0); } }' % (ct, ct, ct, ct, ct, n, n, ct, n, n, n, n, n, n, n, ct, n, n, n, n))
        preg = treg('P', t, [n, n], 'out'); breg = rreg('B', t, n * n); bn = n * n
    regions = [{'name': 'Q0', 'ety': CELL[t][0], 'cells': n * n, 'kind': 'raw', 'role': 'in', 'init': 'rats', 'ints': rats},
               rreg('rd', t, n, role='in', init='sym', positive=True), rreg('ru', t, n * n, role='in', init='sym'),
               treg('A', t, [n, n], 'in', init='undef'), rreg('Re', t, n * n), treg('Q', t, [n, n], 'out'), treg('R', t, [n, n], 'out'), preg, rreg('D', t, n * n), breg]
    stages = [{'mod': 'ref', 'fn': '@R@pre', 'args': ['Q0', 'rd', 'ru', 'A', 'Re']}, {'mod': 'wit', 'fn': '@W@', 'args': ['A', 'Q', 'R', 'P']}, {'mod': 'ref', 'fn': '@R@post', 'args': ['Q0', 'Q', 'P', 'D', 'B']}]
    obl = [{'kind': 'equal', 'a': 'R', 'b': 'Re', 'cells': n * n, 'mode': 'ALG'}, {'kind': 'zero', 'region': 'D', 'cells': n * n}, {'kind': 'zero', 'region': 'B', 'cells': bn}]
    return Witness('qrpiv_%s_%s_%s_%d%s' % (t, enc, kind, n, '' if arg == 'tensor' else '_expr'), 'qr.MGSRPiv.' + enc + '.' + kind + ('' if arg == 'tensor' else '.expr'), {'type': t, 'n': n, 'q0': kind, 'strategy': 'MGSRPiv', 'enc': enc, 'arg': arg}, wit, pre + '\n' + post, regions, stages, obl,
                   extra={'poly_cap': 400000, 'max_ms': 300000})


def mk_structure(t, n, strat='MGSR'):
    tt = tensor_t(t, [n, n])
    wit = 'extern "C" void @W@(const %s& A, %s& Q, %s& R){ qr<QRCompType::%s>(A, Q, R); }' % (tt, tt, tt, strat)
    lower = [i * n + j for i in range(n) for j in range(n) if i > j]
    obl = [{'kind': 'const', 'region': 'R', 'cells': lower, 'value': 0}]
    # Gram-Schmidt kernels: the orthogonality bound O(eps*cond) of the property holds for the MODIFIED scheme, in which the coefficient
    # R(i,j) is taken against column j already deflated by the earlier directions; taking it against the original column (classical
    # Gram-Schmidt) is the same function in exact arithmetic but loses orthogonality like eps*cond^2 (Bjorck 1967).  Structural
    # necessary condition, checked on the value flow: the term stored in R(i,j), 1 <= i < j, is computed from the term stored in
    # R(i-1,j).  Only applied while the Gram-Schmidt kernel qr_mgsr_dispatcher is what the call reaches.
    for i in range(1, n):
        for j in range(i + 1, n):
            obl.append({'kind': 'contains', 'region': 'R', 'cell': i * n + j, 'sub_region': 'R', 'sub_cell': (i - 1) * n + j, 'only_if_func': 'qr_mgsr_dispatcher',
                        'why': 'R(%d,%d) is not computed from the column deflated by direction %d (classical instead of modified Gram-Schmidt: orthogonality degrades like eps*cond^2)' % (i, j, i - 1)})
    # Gram-Schmidt causality: column i of Q and R[i,i] depend at least on columns 0..i of A
    for i in (0, n - 1):
        need = [r * n + c for r in range(n) for c in range(i + 1)]
        obl.append({'kind': 'depends', 'region': 'R', 'cell': i * n + i, 'ns': 'A', 'cells': need})
        obl.append({'kind': 'depends', 'region': 'Q', 'cell': 0 * n + i, 'ns': 'A', 'cells': need})
    if t == 'f64':   # no double-precision result may be derived through a conversion to single precision (e.g. sqrtf in templated code)
        obl += [{'kind': 'no_narrowing', 'region': 'Q', 'cells': n * n}, {'kind': 'no_narrowing', 'region': 'R', 'cells': n * n}]
    return Witness('qrstruct_%s_%s_%d' % (t, strat, n), 'qr.' + strat + '.structure', {'type': t, 'n': n, 'strategy': strat}, wit, '', [treg('A', t, [n, n]), treg('Q', t, [n, n], 'out'), treg('R', t, [n, n], 'out')],
                   [{'mod': 'wit', 'fn': '@W@', 'args': ['A', 'Q', 'R']}], obl)


def witnesses(tier, seed):
    quick = tier == 'quick'
    W = []
    for t in ('f64', 'f32'):
        for n in ([1, 2, 3, 4, 5, 6, 8] if quick else list(range(1, 13))):
            kinds = ['identity'] + (['rot345', 'rot51213'] if n >= 2 else []) + (['hadamard'] if n >= 4 else []) + (['mixed'] if n >= 4 else []) + (['kron'] if n == 8 else [])
            for kind in kinds:
                if t == 'f32' and quick and kind not in ('identity', 'hadamard', 'rot345'):
                    continue
                W.append(mk(t, n, kind))
                if n <= 6 and kind in ('identity', 'rot345', 'hadamard'):
                    W.append(mk(t, n, kind, det=True))
        # improper Q0 (determinant -1): the factorisation is still unique (Q == Q0, R == R0); the determinant through QR must carry the sign
        for n in (1, 2, 3):
            W.append(mk(t, n, 'reflect'))
            W.append(mk(t, n, 'reflect', det=True))
        for n in (1, 2, 3, 4, 5, 8, 9):
            W.append(mk_structure(t, n))
        # the pivoted form end to end (symbolic pivot search): both permutation encodings
        for enc in ('V', 'M'):
            for (n, kind) in [(2, 'identity'), (2, 'rot345'), (3, 'rot345'), (3, 'identity'), (3, 'dense237')] + ([] if quick else [(3, 'rot51213'), (4, 'hadamard')]):
                if t == 'f32' and ((quick and n > 2) or n > 3):
                    continue     # n = 4 in single precision exceeds the budget of the case split (decided in double precision)
                W.append(mk_pivoted(t, n, kind, enc))
                if kind in ('rot345', 'dense237') and t == 'f64':
                    W.append(mk_pivoted(t, n, kind, enc, arg='expr'))
    return group_sort(W)


def check(tier, seed):
    R = Runner('C13', tier, seed)
    try:
        cfgs = [Config(isa) for isa in (ALL_ISAS if tier != 'quick' else ['scalar', 'sse2', 'avx', 'avx2', 'avx512'])]
        R.run_all(witnesses(tier, seed), cfgs, chunk=6)
        return finish('C13', tier, seed, R, 'other',
                      rule='exact-arithmetic clause on families: the input is initialised to A = Q0*R0 with Q0 a constant RATIONAL orthogonal matrix (identity, 1/2 Hadamard(4) blocks, Pythagorean rotations (3/5,4/5), (5/13,12/13), their block and Kronecker combinations) and R0 symbolic upper triangular with positive-declared diagonal; the QR factorisation with positive diagonal is unique, so qr<MGSR>(A,Q,R) must normalise to Q == Q0 (constants) and R == R0 cell by cell (square roots of perfect-square monomials normalise to their positive root, no atom survives), which gives Q*R = A, orthonormality and triangular structure for each family — universal over R0, not over all A; determinant<QR>(A) must equal the product of the diagonal of R0; on plain symbolic input R strictly lower is the exact constant 0 and Gram-Schmidt causality holds syntactically.',
                      trusted=['clang-14 front end and -O2 code generation', 'LLVM IR semantics as modelled by irflow', 'x86 lane table', 'reference stages in gen/c13.py'],
                      floors=load_floors('C13', tier),
                      assumptions=['exact (real) arithmetic on the listed families only: the n*eps*||A|| and cond(A)-scaled orthogonality bounds are NOT decided (DESIGN.md §6)', 'MGSRPiv: the pivot search is data-dependent and not analysed'],
                      extra_cov={'not_decided': 'floating-point bounds; matrices outside the Q0*R0 families; pivoted QR for n > 3 (4 in double precision, thorough)'})
    finally:
        R.cleanup()
