# C06 — results do not depend on the SIMD instruction set, C++ level or tuning macros (DESIGN.md §5 C06)
from core import *
from c04 import group_sort
import c01, c02, c03, c04, c05, c08, c09, c10, c11, c12, c13, c14, c16, c17, c18, c19, c20


def corpus(tier, seed):
    """a covering slice of every other property corpus (each witness carries its own oracle, so agreement of every
    configuration with the oracle is agreement between the configurations)"""
    W = []
    step = 40 if tier == 'quick' else 8
    for mod in (c01, c02, c04, c05, c14, c16, c17, c18, c19, c20, c09):
        # alternatives are judged as groups in their own property; families with an open known finding of another
        # property fail identically under every configuration, which is not a dependence on the configuration
        ws = [w for w in mod.witnesses(tier, seed) if not (w.params or {}).get('or_group') and not in_open_finding_family(w)]
        W += ws[(seed + 3) % step::step]
    ws = [w for w in c03.witnesses(tier, seed, 'gnu++14')]
    W += ws[(seed + 1) % (step // 2)::step // 2]
    ws = [w for w in c08.witnesses(tier, seed, 'sse2') if not (w.params or {}).get('or_group') and 'mask' not in w.family]
    W += ws[(seed + 2) % step::step]
    for mod in (c10, c11, c12, c13):
        ws = [w for w in mod.witnesses(tier, seed) if w.params.get('n', 99) <= 5]
        W += ws[::max(1, len(ws) // (6 if tier == 'quick' else 30))]
    return group_sort(W)


def value_configs(tier):
    cs = []
    # optimisation levels and language standards (the other properties run every ISA at gnu++17 -O2 -DNDEBUG)
    for isa, opt, std in [('sse2', '-O0', 'gnu++17'), ('avx2', '-O1', 'gnu++14'), ('avx512', '-O3', 'gnu++17'), ('scalar', '-O3', 'gnu++14'), ('avx', '-O1', 'gnu++17'), ('sse42', '-O3', 'gnu++14'), ('avx512f', '-O1', 'gnu++14'),
                          ('avx2', '-O0', 'gnu++14'), ('avx512', '-O0', 'gnu++17')]:
        cs.append(Config(isa, std=std, opt=opt))
    cs.append(Config('sse2', ndebug=False)); cs.append(Config('avx2', std='gnu++14', ndebug=False))
    cs.append(Config('avx512', macros=('FASTOR_ENABLE_RUNTIME_CHECKS=1',)))
    # documented tuning macros, one at a time
    singles = ['FASTOR_USE_HADD', 'FASTOR_USE_VECTORISED_EXPR_ASSIGN', 'FASTOR_ZERO_INITIALISE', 'FASTOR_DISABLE_SPECIALISED_CTR', 'FASTOR_KEEP_DP_FIXED', 'FASTOR_DONT_PERFORM_OP_MIN', 'FASTOR_DONT_VECTORISE']
    isas = ['sse2', 'avx2', 'avx512', 'avx', 'sse42', 'avx512f']
    for k, m in enumerate(singles):
        cs.append(Config(isas[k % len(isas)], macros=(m,)))
        if tier != 'quick':
            cs.append(Config(isas[(k + 2) % len(isas)], macros=(m,)))
    for b in (1, 2, 3, 4, 5):
        cs.append(Config(isas[b % len(isas)], macros=('FASTOR_MATMUL_OUTER_BLOCK_SIZE=%d' % b, 'FASTOR_MATMUL_INNER_BLOCK_SIZE=%d' % (6 - b))))
    for b in (1, 2, 4):
        cs.append(Config(isas[(b + 1) % len(isas)], macros=('FASTOR_TRANS_OUTER_BLOCK_SIZE=%d' % b, 'FASTOR_TRANS_INNER_BLOCK_SIZE=%d' % b)))
    if tier != 'quick':
        for isa in ALL_ISAS:
            for std in ('gnu++14', 'gnu++17'):
                for opt in ('-O0', '-O1', '-O2', '-O3'):
                    cs.append(Config(isa, std=std, opt=opt))
    seen, out = set(), []
    for c in cs:
        if c.key() not in seen:
            seen.add(c.key()); out.append(c)
    return out


# macro x ISA pairs: a tuning macro whose effect sits in ISA-specific code (or next to vectorised loops) is combined with EVERY
# instruction set, on the part of the corpora that can reach that code (varying one factor at a time misses a defect that needs both)
def _fam(*prefixes):
    return lambda w: w.family.startswith(prefixes)


TARGETED = {
    'FASTOR_USE_HADD': [(c16, _fam('reduce.norm', 'reduce.inner', 'reduce.sum', 'reduce.product', 'reduce.det', 'reduce.trace')), (c08, _fam('simd.hsum', 'simd.hprod', 'simd.dot')),
                        (c03, _fam('einsum.inner')), (c09, _fam('lazy.det', 'lazy.norm', 'lazy.trace')), (c01, _fam('matmul.matvec', 'matmul.vecmat'))],
    'FASTOR_USE_VECTORISED_EXPR_ASSIGN': [(c05, _fam('write.')), (c18, _fam('noalias.', 'perfect_overlap.')), (c19, _fam('index.flat.write', 'index.nd.write'))],
    'FASTOR_ZERO_INITIALISE': [(c20, _fam('ctor.')), (c08, _fam('simd.copy', 'simd.broadcast', 'simd.set'))],
    'FASTOR_DISABLE_SPECIALISED_CTR': [(c20, _fam('ctor.')), (c02, _fam('expr.arith'))],
}


def targeted_corpus(macro, tier, seed, isa):
    W = []
    for mod, sel in TARGETED[macro]:
        try:
            ws = mod.witnesses(tier, seed)
        except TypeError:
            ws = mod.witnesses(tier, seed, isa)
        ws = [w for w in ws if sel(w) and not (w.params or {}).get('or_group') and not in_open_finding_family(w)]
        cap = 160 if tier == 'quick' else 1200
        W += ws[::max(1, len(ws) // cap)]
    return group_sort(W)


def acceptance(R, W, tier):
    """every program of the corpus must be accepted by the front end under every cell of ISA x standard x checks"""
    grid = []
    for isa in ALL_ISAS + ['nosse']:
        for std in ('gnu++14', 'gnu++17'):
            for chk in ('ndebug', 'debug', 'checks'):
                grid.append((isa, std, chk))
    if tier == 'quick':
        grid = [g for k, g in enumerate(grid) if k % 2 == 0 or g[2] == 'ndebug']
    text, idx = R._tu_text(W, 'wit')
    src = os.path.join(R.tmp, 'accept.cpp')
    open(src, 'w').write(text)
    def one(cell):
        isa, std, chk = cell
        flags = ['-std=' + std, '-O2'] + (ISA[isa] if isa != 'nosse' else ['-mno-sse']) + ({'ndebug': ['-DNDEBUG'], 'debug': [], 'checks': ['-DNDEBUG', '-DFASTOR_ENABLE_RUNTIME_CHECKS=1']}[chk])
        p = run(['clang++'] + flags + ['-I' + REPO, '-Wno-everything', '-fsyntax-only', '-ferror-limit=0', '-ftemplate-backtrace-limit=0', src])
        bad = attribute_errors(p.stderr, len(W)) if p.returncode != 0 else {}
        return cell, bad, p.returncode
    results = {}
    with ThreadPoolExecutor(max_workers=JOBS) as ex:
        for cell, bad, rc in ex.map(one, grid):
            results[cell] = (bad, rc)
    fn_ids = sorted(set(i for i in idx if i >= 0))
    viol, obl, ok = [], 0, 0
    for f in fn_ids:
        rej = [c for c in grid if f in results[c][0]]
        obl += 1
        if not rej or len(rej) == len(grid):
            ok += 1        # accepted everywhere (or rejected everywhere: not a program the library offers)
            continue
        w = W[f]
        msg, loc = results[rej[0]][0][f]
        viol.append(({'id': w.id, 'family': 'acceptance', 'params': w.params, 'config': '/'.join(rej[0]), 'isa': rej[0][0]},
                     {'kind': 'acceptance-depends-on-configuration', 'where': loc, 'detail': 'rejected under %d of %d configurations (e.g. %s) and accepted under the others: %s' % (len(rej), len(grid), ' '.join(rej[0]), msg)}))
    unattributed = [c for c in grid if -1 in results[c][0]]
    for c in unattributed:
        R.broken.append('acceptance matrix: errors under %s could not be attributed to a witness: %s' % (' '.join(c), results[c][0][-1][0]))
    return viol, obl, ok, len(grid)


def check(tier, seed):
    R = Runner('C06', tier, seed)
    try:
        W = corpus(tier, seed)
        viol, obl, ok, ncells = acceptance(R, W, tier)
        cfgs = value_configs(tier)
        R.run_all(W, cfgs, chunk=60)
        tcache = {}
        def tw(cfg):
            m = cfg.macros[0]
            key = (m, cfg.isa if any(mod is c08 for mod, _ in TARGETED[m]) else '')
            if key not in tcache:
                tcache[key] = targeted_corpus(m, tier, seed, cfg.isa)
            return tcache[key]
        few = ('sse2', 'avx2', 'avx512')   # macros without ISA-specific arms: three ISAs in the quick tier
        tcfgs = [Config(isa, macros=(m,)) for m in TARGETED for isa in ALL_ISAS if not (m == 'FASTOR_USE_HADD' and isa == 'scalar') and (tier != 'quick' or m in ('FASTOR_USE_HADD', 'FASTOR_USE_VECTORISED_EXPR_ASSIGN') or isa in few)]
        R.run_all(tw, tcfgs, chunk=60)
        return finish('C06', tier, seed, R, 'other',
                      rule='(a) acceptance: a covering slice of the witness programs of every other property (%d programs) is type-checked with clang++ -fsyntax-only under a grid of %d cells of {scalar, SSE2, SSE4.2, AVX, AVX2+FMA, AVX-512F, AVX-512, -mno-sse} x {C++14, C++17} x {NDEBUG, debug, runtime checks}; a program rejected under some cells and accepted under others is a violation naming the first diagnostic inside the repository. (b) values: the same programs are lowered and interpreted under %d further configurations — -O0/-O1/-O3, both standards, assertions on, and every documented tuning macro one at a time (FASTOR_USE_HADD, matmul and transpose block sizes 1..5, op-min off, FASTOR_KEEP_DP_FIXED, vectorised view assignment, zero initialisation, specialised constructors off, vectorisation off) — and each final state is compared with the witness oracle (EXACT for integer/boolean cells, ALGEBRAIC with the rounding premises for floating products/sums): agreement of every configuration with one oracle is agreement between configurations.' % (len(set(w.wit_src for w in W)), ncells, len(cfgs)),
                      trusted=['clang-14 front end and code generation at every optimisation level', 'LLVM IR semantics as modelled by irflow', 'x86 lane table', 'the oracles of the other properties'],
                      floors=load_floors('C06', tier), assumptions=['other compilers are out of scope: undefined behaviour exploited only by g++ (the _mm_mul_epi64 strict-aliasing problem behind the always-failing int64 tests) is invisible in clang IR'],
                      extra_viol=viol, extra_obl=(obl, ok))
    finally:
        R.cleanup()
