# C06 — results do not depend on the SIMD instruction set, C++ level or tuning macros (DESIGN.md §5 C06)
from core import *
from c04 import group_sort
import c01, c02, c03, c04, c05, c08, c09, c10, c11, c12, c13, c14, c16, c17, c18, c19, c20


def corpus(tier, seed):
    """a covering slice of every other property corpus (each witness carries its own oracle, so agreement of every
    configuration with the oracle is agreement between the configurations)"""
    W = []
    step = 40 if tier == 'quick' else 60    # thorough slices the (5-10x larger) thorough corpora of the other properties; sized so that the tier finishes in about half an hour
    for mod in (c01, c02, c04, c05, c14, c16, c17, c18, c19, c20, c09):
        # alternatives are judged as groups in their own property; families with an open known finding of another
        # property fail identically under every configuration, which is not a dependence on the configuration
        ws = [w for w in mod.witnesses(tier, seed) if not (w.params or {}).get('or_group') and not in_open_finding_family(w)]
        W += ws[(seed + 3) % step::step]
    ws = [w for w in c03.witnesses(tier, seed, 'gnu++14')]
    W += ws[(seed + 1) % (step // 2)::step // 2]
    ws = [w for w in c08.witnesses(tier, seed, 'sse2') if not (w.params or {}).get('or_group') and 'mask' not in w.family]
    W += ws[(seed + 2) % step::step]
    for mod in (c10, c11, c12, c13):
        ws = [w for w in mod.witnesses(tier, seed) if w.params.get('n', 99) <= 5 and not in_open_finding_family(w)]
        W += ws[::max(1, len(ws) // (6 if tier == 'quick' else 30))]
    return group_sort(W)


def value_configs(tier):
    cs = []
    # optimisation levels and language standards (the other properties run every ISA at gnu++17 -O2 -DNDEBUG)
    for isa, opt, std in [('sse2', '-O0', 'gnu++17'), ('avx2', '-O1', 'gnu++14'), ('avx512', '-O3', 'gnu++17'), ('scalar', '-O3', 'gnu++14'), ('avx', '-O1', 'gnu++17'), ('sse42', '-O3', 'gnu++14'), ('avx512f', '-O1', 'gnu++14'),
                          ('avx2', '-O0', 'gnu++14'), ('avx512', '-O0', 'gnu++17')]:
        cs.append(Config(isa, std=std, opt=opt))
    cs.append(Config('sse2', ndebug=False)); cs.append(Config('avx2', std='gnu++14', ndebug=False))
    cs.append(Config('avx512', macros=('FASTOR_ENABLE_RUNTIME_CHECKS=1',)))
    # documented tuning macros, one at a time
    singles = ['FASTOR_USE_HADD', 'FASTOR_USE_VECTORISED_EXPR_ASSIGN', 'FASTOR_ZERO_INITIALISE', 'FASTOR_DISABLE_SPECIALISED_CTR', 'FASTOR_KEEP_DP_FIXED', 'FASTOR_DONT_PERFORM_OP_MIN', 'FASTOR_DONT_VECTORISE']
    isas = ['sse2', 'avx2', 'avx512', 'avx', 'sse42', 'avx512f']
    for k, m in enumerate(singles):
        cs.append(Config(isas[k % len(isas)], macros=(m,)))
        if tier != 'quick':
            cs.append(Config(isas[(k + 2) % len(isas)], macros=(m,)))
    for b in (1, 2, 3, 4, 5):
        cs.append(Config(isas[b % len(isas)], macros=('FASTOR_MATMUL_OUTER_BLOCK_SIZE=%d' % b, 'FASTOR_MATMUL_INNER_BLOCK_SIZE=%d' % (6 - b))))
    for b in (1, 2, 4):
        cs.append(Config(isas[(b + 1) % len(isas)], macros=('FASTOR_TRANS_OUTER_BLOCK_SIZE=%d' % b, 'FASTOR_TRANS_INNER_BLOCK_SIZE=%d' % b)))
    if tier != 'quick':
        k = 0
        for isa in ALL_ISAS:
            for opt in ('-O0', '-O1', '-O3'):
                k += 1
                cs.append(Config(isa, std=('gnu++14', 'gnu++17')[k % 2], opt=opt))
    seen, out = set(), []
    for c in cs:
        if c.key() not in seen:
            seen.add(c.key()); out.append(c)
    return out


# macro x ISA pairs: a tuning macro whose effect sits in ISA-specific code (or next to vectorised loops) is combined with EVERY
# instruction set, on the part of the corpora that can reach that code (varying one factor at a time misses a defect that needs both)
def _fam(*prefixes):
    return lambda w: w.family.startswith(prefixes)


TARGETED = {
    'FASTOR_USE_HADD': [(c16, _fam('reduce.norm', 'reduce.inner', 'reduce.sum', 'reduce.product', 'reduce.det', 'reduce.trace')), (c08, _fam('simd.hsum', 'simd.hprod', 'simd.dot')),
                        (c03, _fam('einsum.inner')), (c09, _fam('lazy.det', 'lazy.norm', 'lazy.trace')), (c01, _fam('matmul.matvec', 'matmul.vecmat'))],
    'FASTOR_USE_VECTORISED_EXPR_ASSIGN': [(c05, _fam('write.')), (c18, _fam('noalias.', 'perfect_overlap.')), (c19, _fam('index.flat.write', 'index.nd.write'))],
    'FASTOR_ZERO_INITIALISE': [(c20, _fam('ctor.')), (c08, _fam('simd.copy', 'simd.broadcast', 'simd.set'))],
    'FASTOR_DISABLE_SPECIALISED_CTR': [(c20, _fam('ctor.')), (c02, _fam('expr.arith'))],
}


def targeted_corpus(macro, tier, seed, isa):
    W = []
    for mod, sel in TARGETED[macro]:
        try:
            ws = mod.witnesses(tier, seed)
        except TypeError:
            ws = mod.witnesses(tier, seed, isa)
        ws = [w for w in ws if sel(w) and not (w.params or {}).get('or_group') and not in_open_finding_family(w)]
        cap = 160 if tier == 'quick' else 400
        keep = [w for w in ws if (w.params or {}).get('wide_strided')]      # families built for exactly these macro arms are never subsampled away
        rest = [w for w in ws if not (w.params or {}).get('wide_strided')]
        W += rest[::max(1, len(rest) // cap)] + keep[::1 if tier != 'quick' else 2]
    return group_sort(W)


# ------------------------------------------------------------------ R-ALIAS
# Rule over the type-checked AST (clang-query): an integer SIMD register (__m128i/__m256i/__m512i, element type long long) must not
# be accessed through a pointer to another integer type (int32_t*, int64_t* == long*, ...).  ISO C++ makes that access undefined
# ([basic.lval]); GCC's type-based alias analysis exploits it at -O2 and above (the may_alias attribute of __m128i covers accesses
# THROUGH __m128i, not accesses TO it), so integer results then depend on the optimisation level and on the compiler: replayed with
# g++ 12 -O2: max(Tensor<int,3,3>{1,-2,3,-4,5,6,-7,-8,-9}) == 0, == 6 with -O1 or -fno-strict-aliasing.  clang's IR cannot show it
# (clang gives vector types the char alias set), hence a source rule.  long long / char-like destinations are allowed.
ALIAS_QUERY = """set bind-root false
set output diag
let NonAliasingInt qualType(isInteger(), unless(hasCanonicalType(qualType(anyOf(asString("long long"), asString("const long long"), asString("unsigned long long"), asString("const unsigned long long"), asString("char"), asString("const char"), asString("unsigned char"), asString("const unsigned char"), asString("signed char"), asString("const signed char"))))))
let Pun explicitCastExpr(hasDestinationType(pointerType(pointee(NonAliasingInt))), hasSourceExpression(ignoringParenImpCasts(expr(hasType(pointsTo(typedefNameDecl(hasAnyName("__m128i", "__m256i", "__m512i"))))))))
match functionDecl(isExpansionInFileMatching("@SCOPE@"), hasDescendant(Pun), unless(cxxMethodDecl())).bind("fn")
match cxxMethodDecl(isExpansionInFileMatching("@SCOPE@"), hasDescendant(Pun), ofClass(cxxRecordDecl().bind("cls"))).bind("fn")
"""


def r_alias(tmp):
    """returns (violations, obligations, ok, broken-reports); one obligation per (configuration, site)"""
    src = os.path.join(tmp, 'ralias.cpp')
    open(src, 'w').write('#include <Fastor/Fastor.h>\n#include "%s"\n' % os.path.join(VERIF, 'selftest', 'alias_positive.h'))
    cfgs = [Config(isa) for isa in ('sse2', 'sse42', 'avx2', 'avx512')]
    def one(job):
        cfg, scope, name = job
        q = os.path.join(tmp, 'qa_%s_%s.cq' % (cfg.key(), name))
        open(q, 'w').write(ALIAS_QUERY.replace('@SCOPE@', scope))
        p = run(['clang-query-14', '-f', q, src, '--'] + cfg.flags() + ['-I' + REPO, '-Wno-everything'])
        locs = []
        for blk in re.split(r'\nMatch #\d+:\n', '\n' + p.stdout)[1:]:
            fn = re.search(r'^(/[^:\n]+):(\d+):\d+: note: "fn" binds here\n([^\n]*)', blk, re.M)
            cl = re.search(r'^(/[^:\n]+):(\d+):\d+: note: "cls" binds here\n([^\n]*)', blk, re.M)
            if fn:
                ctext = ''
                if cl:      # the class declaration may start with a bare 'template<>' line: take the declaration text up to the brace
                    try:
                        SL = open(cl.group(1)).read().splitlines()
                        ctext = re.sub(r'\s+', ' ', ' '.join(SL[int(cl.group(2)) - 1:int(cl.group(2)) + 2])).split('{')[0].strip()[:90]
                    except OSError:
                        ctext = cl.group(3).strip()
                locs.append((fn.group(1), ctext, re.sub(r'\s+', ' ', fn.group(3).strip())[:110]))
        return cfg, name, locs, ('error:' in p.stderr or 'error:' in p.stdout), p.stdout[-200:] + p.stderr[-200:]
    jobs = [(c, '/Fastor/', 'repo') for c in cfgs] + [(c, 'selftest/alias_positive', 'control') for c in cfgs]
    sites, report, obl, ok = {}, [], 0, 0
    with ThreadPoolExecutor(max_workers=JOBS) as ex:
        for cfg, name, locs, errs, tail in ex.map(one, jobs):
            if errs:
                report.append('R-ALIAS: clang-query failed under %s: %s' % (cfg.key(), tail)); continue
            if name == 'control':
                obl += 1
                if len(set(l[2] for l in locs)) == 2:
                    ok += 1        # exactly the two planted violations, not the two allowed forms
                else:
                    report.append('R-ALIAS positive control matched %d functions under %s instead of 2 (rule broken)' % (len(locs), cfg.key()))
                continue
            # stable site key: file + enclosing class specialisation + signature text (line numbers shift with unrelated edits)
            for f, cls, sig in sorted(set(locs)):
                sites.setdefault('%s | %s | %s' % (f.replace(REPO.rstrip('/') + '/', ''), cls, sig), []).append(cfg.key())
    viol = []
    for key, cs in sorted(sites.items()):
        obl += 1
        viol.append(({'id': 'R-ALIAS', 'family': 'r-alias', 'params': {'site': key}, 'config': cs[0], 'isa': 'sse2'},
                     {'kind': 'register-type-punning', 'where': key, 'detail': 'integer SIMD register accessed through a pointer to a different integer type (undefined under strict aliasing; g++ -O2 miscompiles) [%d configurations]' % len(cs)}))
    return viol, obl, ok, report


def acceptance(R, W, tier):
    """every program of the corpus must be accepted by the front end under every cell of ISA x standard x checks"""
    grid = []
    for isa in ALL_ISAS + ['nosse']:
        for std in ('gnu++14', 'gnu++17'):
            for chk in ('ndebug', 'debug', 'checks'):
                grid.append((isa, std, chk))
    if tier == 'quick':
        grid = [g for k, g in enumerate(grid) if k % 2 == 0 or g[2] == 'ndebug']
    text, idx = R._tu_text(W, 'wit')
    src = os.path.join(R.tmp, 'accept.cpp')
    open(src, 'w').write(text)
    def one(cell):
        isa, std, chk = cell
        flags = ['-std=' + std, '-O2'] + (ISA[isa] if isa != 'nosse' else ['-mno-sse']) + ({'ndebug': ['-DNDEBUG'], 'debug': [], 'checks': ['-DNDEBUG', '-DFASTOR_ENABLE_RUNTIME_CHECKS=1']}[chk])
        p = run(['clang++'] + flags + ['-I' + REPO, '-Wno-everything', '-fsyntax-only', '-ferror-limit=0', '-ftemplate-backtrace-limit=0', src])
        bad = attribute_errors(p.stderr, len(W)) if p.returncode != 0 else {}
        return cell, bad, p.returncode
    results = {}
    with ThreadPoolExecutor(max_workers=JOBS) as ex:
        for cell, bad, rc in ex.map(one, grid):
            results[cell] = (bad, rc)
    fn_ids = sorted(set(i for i in idx if i >= 0))
    viol, obl, ok = [], 0, 0
    for f in fn_ids:
        rej = [c for c in grid if f in results[c][0]]
        obl += 1
        if not rej or len(rej) == len(grid):
            ok += 1        # accepted everywhere (or rejected everywhere: not a program the library offers)
            continue
        w = W[f]
        msg, loc = results[rej[0]][0][f]
        viol.append(({'id': w.id, 'family': 'acceptance', 'params': w.params, 'config': '/'.join(rej[0]), 'isa': rej[0][0]},
                     {'kind': 'acceptance-depends-on-configuration', 'where': loc, 'detail': 'rejected under %d of %d configurations (e.g. %s) and accepted under the others: %s' % (len(rej), len(grid), ' '.join(rej[0]), msg)}))
    unattributed = [c for c in grid if -1 in results[c][0]]
    for c in unattributed:
        R.broken.append('acceptance matrix: errors under %s could not be attributed to a witness: %s' % (' '.join(c), results[c][0][-1][0]))
    return viol, obl, ok, len(grid)


def check(tier, seed):
    R = Runner('C06', tier, seed)
    try:
        W = corpus(tier, seed)
        viol, obl, ok, ncells = acceptance(R, W, tier)
        aviol, aobl, aok, arep = r_alias(R.tmp)
        viol += aviol; obl += aobl; ok += aok; R.broken += arep
        cfgs = value_configs(tier)
        R.run_all(W, cfgs, chunk=60)
        tcache = {}
        def tw(cfg):
            m = cfg.macros[0]
            key = (m, cfg.isa if any(mod is c08 for mod, _ in TARGETED[m]) else '')
            if key not in tcache:
                tcache[key] = targeted_corpus(m, tier, seed, cfg.isa)
            return tcache[key]
        few = ('sse2', 'avx2', 'avx512')   # macros without ISA-specific arms: three ISAs in the quick tier
        tcfgs = [Config(isa, macros=(m,)) for m in TARGETED for isa in ALL_ISAS if not (m == 'FASTOR_USE_HADD' and isa == 'scalar') and (tier != 'quick' or m in ('FASTOR_USE_HADD', 'FASTOR_USE_VECTORISED_EXPR_ASSIGN') or isa in few)]
        R.run_all(tw, tcfgs, chunk=60)
        # block-size macros select different interior kernels (numSIMDCols = 1..5) of the blocked matmul / tmatmul: every value on every
        # vector ISA, on the shapes large enough to enter those kernels
        big = [w for w in c01.witnesses(tier, seed) if w.family == 'matmul.matmul' and w.params['type'] in ('f32', 'f64', 'i32') and w.params['M'] >= 8 and w.params['N'] >= 16 and w.params['M'] * w.params['N'] <= 1300]
        big += [w for w in c17.witnesses(tier, seed) if w.params.get('M', 0) >= 9 and w.params.get('N', 0) >= 20 and w.params['type'] in ('f32', 'f64')][::5 if tier == 'quick' else 1]
        big = group_sort(big)
        bcfgs = [Config(isa, macros=('FASTOR_MATMUL_OUTER_BLOCK_SIZE=%d' % o, 'FASTOR_MATMUL_INNER_BLOCK_SIZE=%d' % i)) for isa in ALL_ISAS if isa != 'scalar'
                 for (o, i) in ([(1, 4), (2, 5), (3, 1), (2, 3), (1, 2)] if tier == 'quick' else [(1, 1), (1, 4), (2, 5), (3, 1), (2, 3), (1, 2), (3, 5), (2, 2)])]
        R.run_all(big, bcfgs, chunk=60)
        return finish('C06', tier, seed, R, 'other',
                      rule='(a) acceptance: a covering slice of the witness programs of every other property (%d programs) is type-checked with clang++ -fsyntax-only under a grid of %d cells of {scalar, SSE2, SSE4.2, AVX, AVX2+FMA, AVX-512F, AVX-512, -mno-sse} x {C++14, C++17} x {NDEBUG, debug, runtime checks}; a program rejected under some cells and accepted under others is a violation naming the first diagnostic inside the repository. (b) values: the same programs are lowered and interpreted under %d further configurations — -O0/-O1/-O3, both standards, assertions on, and every documented tuning macro one at a time (FASTOR_USE_HADD, matmul and transpose block sizes 1..5, op-min off, FASTOR_KEEP_DP_FIXED, vectorised view assignment, zero initialisation, specialised constructors off, vectorisation off) — and each final state is compared with the witness oracle (EXACT for integer/boolean cells, ALGEBRAIC with the rounding premises for floating products/sums): agreement of every configuration with one oracle is agreement between configurations.' % (len(set(w.wit_src for w in W)), ncells, len(cfgs)),
                      trusted=['clang-14 front end and code generation at every optimisation level', 'LLVM IR semantics as modelled by irflow', 'x86 lane table', 'the oracles of the other properties'],
                      floors=load_floors('C06', tier), assumptions=['other compilers are out of scope: undefined behaviour exploited only by g++ (the _mm_mul_epi64 strict-aliasing problem behind the always-failing int64 tests) is invisible in clang IR'],
                      extra_viol=viol, extra_obl=(obl, ok))
    finally:
        R.cleanup()
