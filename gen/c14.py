# C14 — permute, permutation, transpose (DESIGN.md §5 C14)
from core import *
import itertools, random

IDX = ['0', '1', '2', '3', '4', '5']


def out_dims(p, dims):          # extents shape[p[n]]
    return [dims[p[n]] for n in range(len(p))]


def copy_map(p, dims):
    """out(j) with j[n] = i[p[n]] holds A(i): map[out_flat] = a_flat"""
    od = out_dims(p, dims)
    m = [0] * prod(dims)
    for i in multi_indices(dims):
        j = [i[p[n]] for n in range(len(p))]
        m[flat(j, od)] = flat(i, dims)
    return m


def inv(p):
    q = [0] * len(p)
    for n, x in enumerate(p):
        q[x] = n
    return q


def expand(m, per, conj=False):
    mm, ng = [], []
    for q in m:
        for c in range(per):
            mm.append(q * per + c); ng.append(1 if (conj and c == 1) else 0)
    return mm, ng


def mk_permute(t, p, dims, api='permute', variant=None, expr=False):
    cell, per = CELL[t]
    pp = p if variant != 'pinv' else inv(p)
    od = out_dims(pp, dims)
    idx = ','.join(IDX[x] for x in p)
    ta, tc = tensor_t(t, dims), tensor_t(t, od)
    arg = 'a' if not expr else '(a+b)'
    call = '%s<Index<%s>>(%s)' % (api, idx, arg)
    extra_param = (', const %s& b' % ta) if expr else ''
    wit = ('extern "C" void @W@(const %s& a%s, %s& c){ static_assert(std::is_same<decltype(%s), %s>::value, "result type"); c = %s; }'
           % (ta, extra_param, tc, call, tc, call))
    m = copy_map(pp, dims)
    regions = [treg('a', t, dims)] + ([treg('b', t, dims)] if expr else []) + [treg('c', t, od, 'out')]
    stages = [{'mod': 'wit', 'fn': '@W@', 'args': ['a'] + (['b'] if expr else []) + ['c']}]
    ref = ''
    if not expr:
        mm, ng = expand(m, per)
        obl = [{'kind': 'copy', 'region': 'c', 'ns': 'a', 'map': mm}]
    else:
        ct = CTYPE[cell]
        mm, ng = expand(m, per)
        ref = 'extern "C" void @R@(const %s* a, const %s* b, %s* c){ static const int m[%d]={%s}; static const int g[%d]={%s}; for(int k=0;k<%d;k++){ %s v=a[m[k]]+b[m[k]]; c[k] = g[k] ? -v : v; } }' % (ct, ct, ct, len(mm), ','.join(map(str, mm)), len(mm), ','.join(str(x) for x in ng), len(mm), ct)
        regions.append(rreg('cref', t, prod(od)))
        stages.append({'mod': 'ref', 'fn': '@R@', 'args': ['a', 'b', 'cref']})
        obl = [{'kind': 'equal', 'a': 'c', 'b': 'cref', 'cells': len(mm), 'mode': 'EXACT'}]
    params = {'type': t, 'perm': list(p), 'dims': list(dims), 'api': api, 'expr': expr}
    if variant:
        params['variant'] = variant
        params['or_group'] = '%s_%s_%s_%s%s' % (api, t, ''.join(map(str, p)), 'x'.join(map(str, dims)), '_expr' if expr else '')
    return Witness('%s_%s_%s_%s%s%s' % (api, t, ''.join(map(str, p)), 'x'.join(map(str, dims)), '_' + variant if variant else '', '_expr' if expr else ''),
                   'permute.' + api + ('.expr' if expr else ''), params, wit, ref, regions, stages, obl)


def mk_roundtrip(t, p, dims):
    cell, per = CELL[t]
    q = inv(p)
    od = out_dims(p, dims)
    # permute<q>(permute<p>(a)) must be a again: the composition of the two documented maps is the identity
    wit = ('extern "C" void @W@(const %s& a, %s& c){ c = permute<Index<%s>>(permute<Index<%s>>(a)); }'
           % (tensor_t(t, dims), tensor_t(t, dims), ','.join(IDX[x] for x in q), ','.join(IDX[x] for x in p)))
    mm, _ = expand(list(range(prod(dims))), per)
    return Witness('roundtrip_%s_%s_%s' % (t, ''.join(map(str, p)), 'x'.join(map(str, dims))), 'permute.roundtrip', {'type': t, 'perm': list(p), 'dims': list(dims)},
                   wit, '', [treg('a', t, dims), treg('c', t, dims, 'out')], [{'mod': 'wit', 'fn': '@W@', 'args': ['a', 'c']}], [{'kind': 'copy', 'region': 'c', 'ns': 'a', 'map': mm}])


def mk_transpose(t, M, N, api):
    cell, per = CELL[t]
    conj = api in ('ctrans', 'ctranspose', 'ctrans_expr', 'ctranspose_expr')
    call = {'transpose': 'transpose(a)', 'trans': 'trans(a)', 'ctrans': 'ctrans(a)', 'ctranspose': 'ctranspose(a)', 'trans_expr': 'trans(a+b)', 'transpose_expr': 'transpose(a+b)', 'ctrans_expr': 'ctrans(a+b)', 'ctranspose_expr': 'ctranspose(a+b)'}[api]
    expr = api.endswith('_expr')
    ta, tc = tensor_t(t, [M, N]), tensor_t(t, [N, M])
    m = copy_map([1, 0], [M, N])
    mm, ng = expand(m, per, conj)
    regions = [treg('a', t, [M, N])] + ([treg('b', t, [M, N])] if expr else []) + [treg('c', t, [N, M], 'out')]
    wit = 'extern "C" void @W@(const %s& a%s, %s& c){ c = %s; }' % (ta, (', const %s& b' % ta) if expr else '', tc, call)
    stages = [{'mod': 'wit', 'fn': '@W@', 'args': ['a'] + (['b'] if expr else []) + ['c']}]
    ref = ''
    if expr:
        ct = CTYPE[cell]
        ref = 'extern "C" void @R@(const %s* a, const %s* b, %s* c){ static const int m[%d]={%s}; static const int g[%d]={%s}; for(int k=0;k<%d;k++){ %s v=a[m[k]]+b[m[k]]; c[k] = g[k] ? -v : v; } }' % (ct, ct, ct, len(mm), ','.join(map(str, mm)), len(mm), ','.join(str(x) for x in ng), len(mm), ct)
        regions.append(rreg('cref', t, M * N)); stages.append({'mod': 'ref', 'fn': '@R@', 'args': ['a', 'b', 'cref']})
        obl = [{'kind': 'equal', 'a': 'c', 'b': 'cref', 'cells': len(mm), 'mode': 'EXACT'}]
    else:
        obl = [{'kind': 'copy', 'region': 'c', 'ns': 'a', 'map': mm, 'neg': ng}]
    return Witness('%s_%s_%d_%d' % (api, t, M, N), 'transpose.' + api, {'type': t, 'M': M, 'N': N, 'api': api}, wit, ref, regions, stages, obl)


EXT = [2, 3, 4, 5, 7, 8, 9]


def pick_dims(rank, rng, cap=800):
    """extents distinct per axis where the size cap allows it (a wrong map then cannot coincide with the right one)"""
    if rank <= 4:
        while True:
            d = rng.sample(EXT, rank)
            if prod(d) <= cap:
                return d
    base = {5: [2, 3, 4, 5, 2], 6: [2, 3, 4, 2, 3, 2]}[rank][:]
    rng.shuffle(base)
    return base


def witnesses(tier, seed):
    rng = random.Random(seed * 7919 + 14)
    W = []
    types_main = ['f32', 'f64', 'i32']
    for rank in (2, 3, 4, 5):
        perms = list(itertools.permutations(range(rank)))
        for pi, p in enumerate(perms):
            if tier == 'quick' and rank == 5 and pi % 4 != seed % 4:
                continue
            t = types_main[pi % 3] if tier == 'quick' else None
            for tt in ([t] if t else types_main + (['i64', 'c64', 'c128'] if rank <= 3 else [])):
                dims = pick_dims(rank, rng, cap=500 if rank >= 4 else 800)
                W.append(mk_permute(tt, p, dims))
                W.append(mk_permute(tt, p, dims, api='permutation', variant='p'))
                if inv(list(p)) != list(p):
                    W.append(mk_permute(tt, p, dims, api='permutation', variant='pinv'))
                if rank <= 4 and (tier != 'quick' or pi % 3 == 0):
                    W.append(mk_permute(tt, p, dims, expr=True))
                    W.append(mk_roundtrip(tt, p, dims))
                if rank <= 4 and (tier != 'quick' or pi % 2 == 0 or rank <= 3):
                    # the legacy API on an expression argument has its own element-wise kernel (permutation_impl for AbstractTensor);
                    # it must agree with whichever reading its tensor overload implements
                    W.append(mk_permute(tt, p, dims, api='permutation', variant='p', expr=True))
                    if inv(list(p)) != list(p):
                        W.append(mk_permute(tt, p, dims, api='permutation', variant='pinv', expr=True))
    if tier != 'quick':
        perms6 = list(itertools.permutations(range(6)))
        for p in rng.sample(perms6, 60):
            dims = [rng.choice([2, 3]) for _ in range(6)]
            dims[rng.randrange(6)] = 4
            W.append(mk_permute('f64', p, dims)); W.append(mk_permute('f32', p, dims))
    # complex and 64-bit on a few permutations in quick
    if tier == 'quick':
        for tt in ('i64', 'c64', 'c128'):
            for p in ((1, 0), (2, 0, 1), (1, 2, 0), (0, 2, 1)):
                W.append(mk_permute(tt, p, pick_dims(len(p), rng)))
    # transpose
    top = 12 if tier == 'quick' else 20
    sizes = set((M, N) for M in range(1, top + 1) for N in range(1, top + 1) if tier != 'quick' or (M + N) % 2 == seed % 2 or M == N or M in (1, 4, 8) or N in (1, 4, 8))
    for b in (16, 17, 24, 33):
        for c in ((b, b), (b, 3), (3, b), (b, 8), (8, b)):
            sizes.add(c)
    for (M, N) in sorted(sizes):
        for t in (['f32', 'f64'] if tier == 'quick' else ['f32', 'f64', 'i32', 'i64']):
            W.append(mk_transpose(t, M, N, 'transpose'))
        if M <= 9 and N <= 9:
            W.append(mk_transpose('f64' if (M + N) % 2 else 'f32', M, N, 'trans'))
            W.append(mk_transpose('c64' if (M + N) % 2 else 'c128', M, N, 'ctrans'))
            if (M * N) % 3 == 0 or tier != 'quick':
                W.append(mk_transpose('c128' if (M + N) % 2 else 'c64', M, N, 'transpose'))
                W.append(mk_transpose('f32', M, N, 'trans_expr'))
                W.append(mk_transpose('f64', M, N, 'transpose_expr'))
                W.append(mk_transpose('c64', M, N, 'ctranspose'))
                W.append(mk_transpose('c128' if (M + N) % 2 else 'c64', M, N, 'ctranspose_expr'))
                W.append(mk_transpose('c64' if (M + N) % 2 else 'c128', M, N, 'ctrans_expr'))
                W.append(mk_transpose('c128', M, N, 'transpose_expr'))
    return W


def check(tier, seed):
    R = Runner('C14', tier, seed)
    try:
        W = witnesses(tier, seed)
        cfgs = [Config(isa) for isa in ALL_ISAS] + [Config(isa, std='gnu++14') for isa in ('sse2', 'avx2', 'avx512')] + [Config('avx2', macros=('CONTRACT_OPT=-1',)), Config('sse2', std='gnu++14', macros=('CONTRACT_OPT=-1',))]
        if tier != 'quick':
            cfgs += [Config(isa, std='gnu++14') for isa in ('scalar', 'sse42', 'avx', 'avx512f')]
            cfgs += [Config(isa, macros=('FASTOR_TRANS_OUTER_BLOCK_SIZE=1', 'FASTOR_TRANS_INNER_BLOCK_SIZE=1')) for isa in ('sse2', 'avx2', 'avx512')]   # other block sizes: known finding F22, exercised in C06
        R.run_all(W, cfgs, chunk=50)
        return finish('C14', tier, seed, R, 'proof',
                      rule='one witness program per (api, element type, axis permutation, shape, build configuration). permute/transpose/trans/ctrans: static_assert on decltype of the call (extents shape[p[n]]) and a copy-flow obligation: irflow shows each output cell is exactly the input cell the property names (EXACT; conjugate transposes negate exactly the imaginary cells); expression arguments are compared with a reference loop; permute<p^-1>(permute<p>(a)) must be the identity copy map; legacy permutation<> is accepted iff extents and elements both follow p or both follow p^-1 (two alternative witnesses, at least one must hold). All permutations of rank 2-5 (quick: a quarter of rank 5), shapes with distinct extents per axis. Non-trivial = more than 8 terms built.',
                      trusted=['clang-14 front end and -O2 code generation', 'LLVM IR semantics as modelled by irflow', 'x86 lane table', 'index maps computed by gen/c14.py from the property statement'],
                      floors=load_floors('C14', tier), assumptions=['shapes/ranks outside the enumerated set are not explored'])
    finally:
        R.cleanup()
