# C18 — overlapping slice assignment with noalias() acts on a snapshot of the source (DESIGN.md §5 C18)
from core import *
from views import *
from c04 import group_sort
import random, itertools

ALLOPS = ['=', '+=', '-=', '*=', '/=']


def equal_extent_pairs(dims, rng, cap, kind='seq', max_step=3):
    """pairs (destination axes, source axes) of equal extents on the same tensor"""
    per_axis = []
    for n in dims:
        tr = [x for x in all_triples(n, max_step=min(max_step, n), encodings=False)]
        byext = {}
        for x in tr:
            byext.setdefault(len(Axis('seq', *x).indices(n)), []).append(x)
        pairs = [(a, b) for e, xs in byext.items() for a in xs for b in xs]
        per_axis.append(pairs)
    allp = None
    if len(dims) == 1:
        allp = [([a], [b]) for a, b in per_axis[0]]
    else:
        total = prod(len(p) for p in per_axis)
        if total <= cap:
            allp = [([x[0] for x in combo], [x[1] for x in combo]) for combo in itertools.product(*per_axis)]
        else:
            allp = []
            for _ in range(cap):
                combo = [rng.choice(p) for p in per_axis]
                allp.append(([x[0] for x in combo], [x[1] for x in combo]))
    if len(allp) > cap:
        allp = rng.sample(allp, cap)
    return [([Axis(kind, *a) for a in d], [Axis(kind, *b) for b in s]) for d, s in allp]


def witnesses(tier, seed):
    rng = random.Random(seed * 1019 + 18)
    quick = tier == 'quick'
    W = []
    T3 = ['f64', 'f32', 'i32']
    k = 0
    # rank 1: all equal-extent pairs (shifted, interleaved strides, partial and perfect overlap)
    for N in ([5, 8, 9] if quick else range(2, 13)):
        for d, s_ in equal_extent_pairs([N], rng, 10 ** 6 if not quick else 220):
            k += 1
            W.append(mk_write(T3[k % 3], [N], d, ALLOPS[k % 5], 'slice', s_, [N], noalias=True, same_tensor=True, family='noalias.seq'))
            if k % 7 == 0:
                W.append(mk_write(T3[k % 3], [N], d, ALLOPS[(k // 7) % 5], 'slice', s_, [N], noalias=True, same_tensor=True, rhs_expr=True, family='noalias.seq.expr'))
            if k % 11 == 0:
                W.append(mk_write(T3[k % 3], [N], d, ALLOPS[(k // 11) % 5], 'slice', s_, [N], noalias=True, same_tensor=True, twice=True, family='noalias.seq.twice'))
    for N in (16, 17, 33):
        for (d, s_) in [((1, N, 1), (0, N - 1, 1)), ((0, N - 1, 1), (1, N, 1)), ((0, N - 3, 1), (3, N, 1)), ((0, 8, 1), (4, 12, 1)), ((0, N - 1, 2), (1, N, 2)), ((2, 10, 1), (0, 16, 2))]:
            for op in ALLOPS:
                k += 1
                W.append(mk_write(T3[k % 3], [N], [Axis('seq', *d)], op, 'slice', [Axis('seq', *s_)], [N], noalias=True, same_tensor=True, family='noalias.seq'))
                W.append(mk_write(T3[(k + 1) % 3], [N], [Axis('fseq', *d)], op, 'slice', [Axis('fseq', *s_)], [N], noalias=True, same_tensor=True, family='noalias.fseq'))
    # rank 2 and 3
    for dims, cap in ([((4, 5), 250), ((5, 6), 150), ((3, 3, 4), 100)] if quick else [((4, 5), 1500), ((5, 6), 1500), ((3, 3, 4), 600), ((2, 4, 8), 300)]):
        for d, s_ in equal_extent_pairs(list(dims), rng, cap):
            k += 1
            W.append(mk_write(T3[k % 3], list(dims), d, ALLOPS[k % 5], 'slice', s_, list(dims), noalias=True, same_tensor=True, family='noalias.seq'))
            if k % 9 == 0:
                W.append(mk_write(T3[k % 3], list(dims), d, ALLOPS[(k // 9) % 5], 'slice', s_, list(dims), noalias=True, same_tensor=True, twice=True, family='noalias.seq.twice'))
            if k % 3 == 0:   # an EXPRESSION of slices of the destination tensor on the right (a different overload from the bare same-type view)
                W.append(mk_write(T3[k % 3], list(dims), d, ALLOPS[(k // 3) % 5], 'slice', s_, list(dims), noalias=True, same_tensor=True, rhs_expr=True, family='noalias.seq.expr'))
        for d, s_ in equal_extent_pairs(list(dims), rng, 60 if quick else 300, kind='fseq'):
            k += 1
            W.append(mk_write(T3[k % 3], list(dims), d, ALLOPS[k % 5], 'slice', s_, list(dims), noalias=True, same_tensor=True, family='noalias.fseq'))
            if k % 2 == 0:
                W.append(mk_write(T3[k % 3], list(dims), d, ALLOPS[(k // 2) % 5], 'slice', s_, list(dims), noalias=True, same_tensor=True, rhs_expr=True, family='noalias.fseq.expr'))
    # shifted overlaps, systematically: destination after / before the source along the last axis (long enough for several vectors) and
    # along the leading axis, every operator, a bare slice and an expression of slices on the right, ranks 1-3, both view kinds
    for dims in ([17], [3, 9], [2, 2, 9], [4, 2, 3]):
        r = len(dims)
        for kind in ('seq', 'fseq'):
            full = [Axis(kind, 0, n, 1) for n in dims]
            for axis in sorted(set([r - 1, 0])):
                n = dims[axis]
                for (d0, s0) in ((1, 0), (0, 1), (2, 0)):
                    ln = n - max(d0, s0)
                    if ln < 1:
                        continue
                    d = list(full); sx = list(full)
                    d[axis] = Axis(kind, d0, d0 + ln, 1); sx[axis] = Axis(kind, s0, s0 + ln, 1)
                    for op in ALLOPS:
                        for rx in (False, True):
                            k += 1
                            W.append(mk_write(T3[k % 3], list(dims), d, op, 'slice', sx, list(dims), noalias=True, same_tensor=True, rhs_expr=rx, family='noalias.shift.' + kind + ('.expr' if rx else '')))
    # perfect overlap without noalias(): the same range on both sides
    for dims in [(9,), (17,), (4, 5), (3, 3, 4)]:
        per_axis = [all_triples(n, max_step=min(3, n), encodings=False) for n in dims]
        for _ in range(40 if quick else 200):
            tr = [rng.choice(p) for p in per_axis]
            for kind in ('seq', 'fseq'):
                k += 1
                ax = [Axis(kind, *x) for x in tr]
                W.append(mk_write(T3[k % 3], list(dims), ax, ALLOPS[k % 5], 'slice', ax, list(dims), noalias=False, same_tensor=True, family='perfect_overlap.' + kind))
    # ... and with an EXPRESSION of the same slice on the right (a(r) = a(r) + a(r)): every element must be read before it is written,
    # whatever the vector width does with the tail; unit-step ranges of every length class (below, at, just above and far above a width)
    for (N, lens) in [(9, (2, 3, 5, 6, 7, 8)), (17, (9, 10, 11, 13, 15, 16)), (35, (17, 19, 24, 31, 33))]:
        for ln in lens:
            for f in (0, 1):
                for kind in ('seq', 'fseq'):
                    for op in ALLOPS:
                        k += 1
                        if quick and op not in ('=', '+=') and (k % 3):
                            continue
                        ax = [Axis(kind, f, f + ln, 1)]
                        W.append(mk_write(T3[k % 3], [N], ax, op, 'slice', ax, [N], noalias=False, same_tensor=True, rhs_expr=True, family='perfect_overlap.expr.' + kind))
    for (dims, axs) in [((4, 9), [(0, 4, 1), (1, 8, 1)]), ((3, 17), [(0, 3, 1), (0, 11, 1)]), ((2, 3, 9), [(0, 2, 1), (0, 3, 1), (1, 8, 1)])]:
        for kind in ('seq', 'fseq'):
            for op in ALLOPS:
                k += 1
                ax = [Axis(kind, *x) for x in axs]
                W.append(mk_write(T3[k % 3], list(dims), ax, op, 'slice', ax, list(dims), noalias=False, same_tensor=True, rhs_expr=True, family='perfect_overlap.expr.' + kind))
    return group_sort(W)


def check(tier, seed):
    R = Runner('C18', tier, seed)
    try:
        R.run_all(witnesses(tier, seed), [Config(isa) for isa in ALL_ISAS], chunk=100)
        return finish('C18', tier, seed, R, 'proof',
                      rule='A(dst).noalias() op= A(src) (and A(src)+A(src), and two successive assignments through one view object) with destination and source slices of the SAME inout tensor, all cells symbolic; the reference first reads the whole right-hand side from the current contents (snapshot) and then updates the destination cells; the whole of A is compared EXACTly afterwards (selected cells and frame). Range pairs: all equal-extent pairs on rank-1 tensors (quick: sampled 220 per size), sampled on rank 2-3; dynamic and compile-time views; five operators; plus perfect overlap (identical range both sides) WITHOUT noalias(). Partial overlap without noalias() is not checked (the property promises nothing).',
                      trusted=['clang-14 front end and -O2 code generation', 'LLVM IR semantics as modelled by irflow', 'x86 lane table', 'selection oracle and snapshot reference emitted by gen/views.py'],
                      floors=load_floors('C18', tier), assumptions=['index-tensor and mask views under noalias() are covered in C19\'s families, not here'])
    finally:
        R.cleanup()
