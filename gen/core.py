# Driver core for the Fastor static-analysis checks (DESIGN.md §3.5).
# python3 stdlib only.  Nothing here executes Fastor code: witness translation units are
# compiled to LLVM bitcode (never linked, never run) and interpreted abstractly by irflow,
# or only type-checked (-fsyntax-only) for the tmeta engine.
import json, os, re, shutil, subprocess, sys, tempfile, time, hashlib
from concurrent.futures import ThreadPoolExecutor

VERIF = os.path.dirname(os.path.dirname(os.path.abspath(__file__)))
REPO = os.environ.get('FASTOR_REPO', '/repo')
IRFLOW = os.path.join(VERIF, 'build', 'irflow')
JOBS = int(os.environ.get('VERIF_JOBS', '16'))

ISA = {
    'scalar':  ['-DFASTOR_DONT_VECTORISE'],
    'sse2':    [],
    'sse42':   ['-msse4.2'],
    'avx':     ['-mavx'],
    'avx2':    ['-mavx2', '-mfma'],
    'avx512f': ['-mavx512f', '-mfma'],
    'avx512':  ['-mavx512f', '-mavx512vl', '-mavx512bw', '-mavx512dq', '-mfma'],
}
ALL_ISAS = list(ISA.keys())

CTYPE = {'f32': 'float', 'f64': 'double', 'i32': 'int', 'i64': 'int64_t', 'c64': 'std::complex<float>', 'c128': 'std::complex<double>',
         'u64': 'unsigned long', 'bool': 'bool', 'i8': 'signed char', 'u8': 'unsigned char', 'i16': 'short'}
# element type of the underlying scalar cells and cells per element
CELL = {'f32': ('f32', 1), 'f64': ('f64', 1), 'i32': ('i32', 1), 'i64': ('i64', 1), 'c64': ('f32', 2), 'c128': ('f64', 2), 'bool': ('bool', 1), 'u64': ('i64', 1),
        'i8': ('i8', 1), 'u8': ('i8', 1), 'i16': ('i16', 1)}
ESZ = {'f32': 4, 'f64': 8, 'i32': 4, 'i64': 8, 'bool': 1, 'i8': 1, 'i16': 2}

WIT_HEADER = '#include <Fastor/Fastor.h>\n#include <complex>\n#include <array>\n#include <vector>\nusing namespace Fastor;\n'
REF_HEADER = '#include <complex>\n#include <cmath>\n#include <cstdint>\n#include <cstdlib>\n#include <cstring>\n#include <algorithm>\n#include <limits>\n'


def prod(xs):
    p = 1
    for x in xs:
        p *= x
    return p


def tensor_t(t, dims):
    return 'Tensor<%s%s>' % (CTYPE[t], ''.join(',%d' % d for d in dims))


def treg(name, t, dims, role='in', init=None, **kw):
    cell, per = CELL[t]
    r = {'name': name, 'ety': cell, 'cells': prod(dims) * per, 'kind': 'tensor', 'role': role}
    if init or role == 'out':
        r['init'] = init or 'undef'
    r.update(kw)
    return r


def rreg(name, t, n, role='scratch', init='undef', **kw):
    cell, per = CELL[t]
    r = {'name': name, 'ety': cell, 'cells': n * per, 'kind': 'raw', 'role': role, 'init': init}
    r.update(kw)
    return r


def flat(idx, dims):
    f = 0
    for i, d in zip(idx, dims):
        f = f * d + i
    return f


def multi_indices(dims):
    import itertools
    return itertools.product(*[range(d) for d in dims])


class Config:
    """one build configuration of the witness TU"""
    def __init__(self, isa='sse2', std='gnu++17', opt='-O2', macros=(), ndebug=True, name=None):
        self.isa, self.std, self.opt, self.macros, self.ndebug = isa, std, opt, tuple(macros), ndebug
        self.name = name or '_'.join([isa, std.replace('gnu++', 'cxx'), opt.strip('-')] + [m.replace('=', '').replace('FASTOR_', '') for m in macros] + ([] if ndebug else ['dbg']))

    def flags(self):
        f = ['-std=' + self.std, self.opt] + ISA[self.isa] + ['-D' + m for m in self.macros]
        if self.ndebug:
            f.append('-DNDEBUG')
        return f

    def key(self):
        return self.name


class Witness:
    def __init__(self, wid, family, params, wit_src, ref_src, regions, stages, obligations, ref_fns=None, extra=None):
        self.id, self.family, self.params = wid, family, params
        self.wit_src, self.ref_src = wit_src, ref_src    # C++ text; functions named @W@ / @R@ (replaced per TU)
        self.regions, self.stages, self.obligations = regions, stages, obligations
        self.extra = extra or {}


def run(cmd, **kw):
    return subprocess.run(cmd, stdout=subprocess.PIPE, stderr=subprocess.PIPE, universal_newlines=True, **kw)


def attribute_errors(stderr, nwit):
    """map clang diagnostics to witness indices through the '#line 1 "w<k>"' markers"""
    bad = {}
    groups, cur = [], []
    for line in stderr.splitlines():
        if re.search(r': (fatal )?error: ', line):
            if cur:
                groups.append(cur)
            cur = [line]
        elif cur:
            cur.append(line)
    if cur:
        groups.append(cur)
    last = None
    for g in groups:
        k = None
        for line in g:
            m = re.match(r'^(?:In file included from )?w(\d+):\d+', line)
            if m:
                k = int(m.group(1))
                break
        if k is None:
            for line in g:
                m = re.search(r'\bw(\d+):\d+:\d+: note', line)
                if m:
                    k = int(m.group(1))
                    break
        first = g[0]
        loc = first
        # first diagnostic line inside the repository
        for line in g:
            if '/Fastor/' in line and ('error' in line or 'note' in line):
                loc = line
                break
        if k is None and last is not None:
            k = last        # follow-up diagnostics of the same failed instantiation carry no backtrace of their own
        if k is not None:
            last = k
            if k not in bad:
                bad[k] = (first.strip()[:300], loc.strip()[:300])
        else:
            bad.setdefault(-1, (first.strip()[:300], loc.strip()[:300]))
    return bad


class Runner:
    """compiles witness chunks per configuration and runs irflow on them"""
    def __init__(self, prop, tier, seed):
        import threading
        self.coverage, self.cov_lock = {}, threading.Lock()
        self.prop, self.tier, self.seed = prop, tier, seed
        self.tmp = tempfile.mkdtemp(prefix='fastor_verif_%s_' % prop)
        self.results = []          # one dict per (witness, config)
        self.compile_cmds = set()
        self.t0 = time.time()
        self.uncompilable = []
        self.broken = []           # analysis-broken reasons

    def cleanup(self):
        if os.environ.get('VERIF_KEEP'):
            print('kept scratch directory', self.tmp)
            return
        shutil.rmtree(self.tmp, ignore_errors=True)

    def _tu_text(self, wits, which, dead=()):
        """witnesses with identical source text share one compiled function; returns (text, index per witness)"""
        parts = [WIT_HEADER if which == 'wit' else REF_HEADER]
        seen, idx = {}, []
        for k, w in enumerate(wits):
            src = w.wit_src if which == 'wit' else w.ref_src
            if not src:
                idx.append(-1); continue
            if src in seen:
                idx.append(seen[src]); continue
            seen[src] = k
            idx.append(k)
            if k in dead:
                continue
            body = src.replace('@W@', 'w%d' % k).replace('@R@', 'r%d' % k)
            parts.append('#line 1 "%s%d"\n%s\n' % ('w' if which == 'wit' else 'r', k, body))
        return ''.join(parts), idx

    def _compile(self, text, path_base, flags, wits, which):
        src = path_base + '.cpp'
        open(src, 'w').write(text)
        bc = path_base + '.bc'
        cmd = ['clang++'] + flags + ['-I' + REPO, '-gline-tables-only', '-Wno-everything', '-c', '-emit-llvm', src, '-o', bc]
        self.compile_cmds.add(' '.join(cmd[:-4] + ['<tu>']))
        p = run(cmd)
        return p, bc

    def run_chunk(self, wits, cfg, chunk_id):
        """returns list of result dicts"""
        base = os.path.join(self.tmp, '%s_%d' % (cfg.key(), chunk_id))
        live = list(range(len(wits)))
        out = []
        # reference TU (plain C++, no Fastor): scalar, unvectorised, no contraction
        ref_text, ridx = self._tu_text(wits, 'ref')
        have_ref = any(w.ref_src for w in wits)
        if have_ref:
            src = base + '_ref.cpp'
            open(src, 'w').write(ref_text)
            rcmd = ['clang++', '-std=gnu++17', '-O1', '-fno-vectorize', '-fno-slp-vectorize', '-fno-unroll-loops', '-ffp-contract=off', '-fno-builtin-memset', '-Wno-everything', '-c', '-emit-llvm', src, '-o', base + '_ref.bc']
            p = run(rcmd)
            if p.returncode != 0:
                self.broken.append('reference TU does not compile: ' + p.stderr[:500])
                return out
        attempt = 0
        dead = set()      # function indices whose source the front end rejects
        while True:
            text, widx = self._tu_text(wits, 'wit', dead)
            p, bc = self._compile(text, base + '_wit', cfg.flags(), wits, 'wit')
            if p.returncode == 0:
                break
            attempt += 1
            # attribute front-end errors to witnesses with a syntax-only pass that does not stop at the first error
            q = run(['clang++'] + cfg.flags() + ['-I' + REPO, '-Wno-everything', '-fsyntax-only', '-ferror-limit=0', '-ftemplate-backtrace-limit=0', base + '_wit.cpp'])
            bad = attribute_errors(q.stderr, len(wits))
            if (-1 in bad or not bad) and attempt <= 3:
                # the diagnostics carry no witness marker (the failing instantiation is reached through a non-template member): compile the functions one by one
                bad = {}
                allk = sorted(set(widx[i] for i in live))
                for k in allk:
                    t1, _ = self._tu_text(wits, 'wit', (set(allk) - {k}) | dead)
                    open(base + '_one.cpp', 'w').write(t1)
                    q1 = run(['clang++'] + cfg.flags() + ['-I' + REPO, '-Wno-everything', '-fsyntax-only', '-ferror-limit=3', base + '_one.cpp'])
                    if q1.returncode != 0:
                        errs = [l for l in q1.stderr.splitlines() if ' error: ' in l]
                        loc = next((l for l in q1.stderr.splitlines() if '/Fastor/' in l and ('error' in l or 'note' in l)), errs[0] if errs else '')
                        bad[k] = ((errs[0] if errs else q1.stderr[:200]).strip()[:300], loc.strip()[:300])
                try:
                    os.remove(base + '_one.cpp')
                except OSError:
                    pass
            if -1 in bad or not bad or attempt > 3:
                self.broken.append('witness TU does not compile and errors cannot be attributed (%s): %s' % (cfg.key(), (q.stderr or p.stderr)[:600]))
                return out
            for k, (msg, loc) in bad.items():
                dead.add(k)
                for i in list(live):
                    if widx[i] == k:
                        live.remove(i)
                        w = wits[i]
                        out.append({'id': w.id, 'family': w.family, 'params': w.params, 'config': cfg.key(), 'isa': cfg.isa, 'status': 'uncompilable', 'error': msg, 'where': loc,
                                    'obligations': 1, 'discharged': 0})
        if not live:
            return out
        spec = {'modules': {'wit': base + '_wit.bc'}, 'witnesses': []}
        if have_ref:
            spec['modules']['ref'] = base + '_ref.bc'
        for i in live:
            w = wits[i]
            stages = []
            for st in w.stages:
                st = dict(st)
                st['fn'] = st['fn'].replace('@W@', 'w%d' % widx[i]).replace('@R@', 'r%d' % ridx[i])
                stages.append(st)
            spec['witnesses'].append({'id': w.id, 'regions': w.regions, 'stages': stages, 'obligations': w.obligations, **w.extra})
        sp = base + '_spec.json'
        json.dump(spec, open(sp, 'w'))
        byid = {}
        pending = list(spec['witnesses'])
        rounds = 0
        while pending and rounds < 6:
            rounds += 1
            json.dump({'modules': spec['modules'], 'witnesses': pending}, open(sp, 'w'))
            try:
                p = run([IRFLOW, sp], timeout=1500)
            except subprocess.TimeoutExpired as te:
                class _P: pass
                p = _P(); p.returncode = -99; p.stdout = te.stdout or ''; p.stderr = 'irflow exceeded the driver time-out'
                if isinstance(p.stdout, bytes): p.stdout = p.stdout.decode('utf-8', 'replace')
            got = 0
            for l in p.stdout.splitlines():
                if l.startswith('{'):
                    try:
                        r = json.loads(l)
                        if '_coverage' in r:
                            with self.cov_lock:
                                for f, ls in r['_coverage'].items():
                                    self.coverage.setdefault(f, set()).update(ls)
                            continue
                        byid[r['id']] = r
                        got += 1
                    except Exception:
                        pass
            if p.returncode == 0:
                break
            # the interpreter died on the first witness without a result: record it and continue with the rest
            rest = [w for w in pending if w['id'] not in byid]
            if rest:
                byid[rest[0]['id']] = {'id': rest[0]['id'], 'status': 'unsupported', 'unsupported': ['irflow terminated abnormally on this witness (exit %s) %s' % (p.returncode, p.stderr[-200:])], 'obligations': 0, 'discharged': 0}
                pending = rest[1:]
            else:
                pending = []
        for i in live:
            w = wits[i]
            r = byid.get(w.id)
            if r is None:
                r = {'id': w.id, 'status': 'unsupported', 'unsupported': ['irflow produced no result (exit %s): %s' % (p.returncode, p.stderr[-300:])], 'obligations': 0, 'discharged': 0}
            r.update({'family': w.family, 'params': w.params, 'config': cfg.key(), 'isa': cfg.isa})
            out.append(r)
        for f in (base + '_wit.bc', base + '_ref.bc', base + '_wit.cpp', base + '_ref.cpp', sp):
            try:
                os.environ.get("VERIF_KEEP") or os.remove(f)
            except OSError:
                pass
        return out

    def run_all(self, wits, configs, chunk=40):
        """wits: list of Witness (or callable cfg -> list); configs: list of Config"""
        jobs = []
        only, only_cfg = os.environ.get('VERIF_ONLY'), os.environ.get('VERIF_ONLY_CFG')   # dev filters (regex on witness id / config name)
        for cfg in configs:
            if only_cfg and not re.search(only_cfg, cfg.name):
                continue
            ws = wits(cfg) if callable(wits) else wits
            if only:
                ws = [w for w in ws if re.search(only, w.id)]
            for c in range(0, len(ws), chunk):
                jobs.append((ws[c:c + chunk], cfg, c // chunk))
        with ThreadPoolExecutor(max_workers=JOBS) as ex:
            for res in ex.map(lambda j: self.run_chunk(*j), jobs):
                self.results.extend(res)
        return self.results


# witness families whose only failures are open known findings of their own property: excluded from the mixed corpora of C06/C07
OPEN_FINDING_FAMILIES = ('layout.to', 'reduce.none_of', 'expr.boolrhs', 'map.view', 'qr.det.reflect')


def in_open_finding_family(w):
    return any(w.family.startswith(p) for p in OPEN_FINDING_FAMILIES)


# ------------------------------------------------------------------ known findings
def load_known():
    p = os.path.join(VERIF, 'known_findings.json')
    if not os.path.exists(p):
        return []
    return json.load(open(p))


def pred_match(pred, value):
    if isinstance(pred, dict):
        if 'in' in pred:
            return value in pred['in']
        if 'mod' in pred:
            m, rs = pred['mod']
            return isinstance(value, int) and value % m in rs
        if 'ge' in pred:
            return value >= pred['ge']
        if 'le' in pred:
            return value <= pred['le']
        return False
    return pred == value


def finding_matches(k, prop, res, viol):
    if k.get('status') != 'open' or k['property'] != prop:
        return False
    fam = k.get('family')
    if isinstance(fam, dict):
        if not pred_match(fam, res.get('family')):
            return False
    elif fam not in (None, '*', res.get('family')):
        return False
    isas = k.get('isa', '*')
    if isas != '*' and res.get('isa') not in isas:
        return False
    if k.get('kind') not in (None, '*', viol.get('kind')):
        return False
    for key, pred in (k.get('params') or {}).items():
        if key not in res.get('params', {}) or not pred_match(pred, res['params'][key]):
            return False
    if 'region' in k and k['region'] != viol.get('region'):
        return False
    if 'permuted' in k and bool(res.get('permuted')) != bool(k['permuted']):
        return False
    if 'config_contains' in k and k['config_contains'] not in (res.get('config') or ''):
        return False
    return True


# ------------------------------------------------------------------ verdict + evidence
LEVELS = {}


def finish(prop, tier, seed, runner, level, rule, trusted, floors=None, extra_cov=None, assumptions=None, exhaustive=False, extra_viol=None, extra_obl=(0, 0), uniform_reject_ok=False):
    """aggregate results, print VIOLATION / KNOWN-FINDING lines, write evidence, return exit code"""
    res = runner.results
    if os.environ.get('VERIF_DUMP'):
        json.dump([r for r in res if r['status'] != 'ok'], open(os.environ['VERIF_DUMP'], 'w'), indent=1)
    known = load_known()
    n_obl = sum(r.get('obligations', 0) for r in res) + extra_obl[0]
    n_ok = sum(r.get('discharged', 0) for r in res) + extra_obl[1]
    by_status = {}
    for r in res:
        by_status[r['status']] = by_status.get(r['status'], 0) + 1
    violations, known_hits, undecided, unsupported = [], {}, [], []
    rejected_everywhere = 0
    if uniform_reject_ok:
        # a program the library rejects under EVERY configuration is not offered at all: counted, not judged.
        # A program rejected under some configurations only is a violation (acceptance must not depend on the configuration).
        by_id = {}
        for r in res:
            by_id.setdefault(r.get('id'), []).append(r['status'])
        allrej = set(i for i, st in by_id.items() if all(x == 'uncompilable' for x in st))
        rejected_everywhere = len(allrej)
        res = [dict(r, status='rejected-everywhere', obligations=0, discharged=0) if r.get('id') in allrej else r for r in res]
    groups_ok = set()
    for r in res:
        g = (r.get('params') or {}).get('or_group')
        if g and r['status'] == 'ok':
            groups_ok.add((g, r.get('config')))
    kept = []
    for r in res:
        g = (r.get('params') or {}).get('or_group')
        if g and r['status'] != 'ok' and (g, r.get('config')) in groups_ok:
            r = dict(r); r['status'] = 'alt-not-taken'; r['obligations'] = 0; r['discharged'] = 0
        kept.append(r)
    res = kept
    n_und_obl = sum(len([u for u in (r.get('undecided') or []) if u.get('kind') != 'more']) for r in res if r['status'] == 'undecided')
    n_obl = sum(r.get('obligations', 0) for r in res) + extra_obl[0] - sum((r.get('obligations', 0) - r.get('discharged', 0)) for r in res if r['status'] in ('undecided', 'unsupported'))
    n_ok = sum(r.get('discharged', 0) for r in res) + extra_obl[1]
    by_status = {}
    for r in res:
        by_status[r['status']] = by_status.get(r['status'], 0) + 1
    for r in res:
        if r['status'] == 'uncompilable':
            v = {'kind': 'uncompilable', 'detail': r.get('error'), 'where': r.get('where')}
            hit = next((k for k in known if finding_matches(k, prop, r, v)), None)
            (known_hits.setdefault(hit['id'], []) if hit else violations).append((r, v))
        elif r['status'] == 'violation':
            for v in r.get('violations', []):
                if v.get('kind') == 'more':
                    continue
                hit = next((k for k in known if finding_matches(k, prop, r, v)), None)
                (known_hits.setdefault(hit['id'], []) if hit else violations).append((r, v))
        elif r['status'] == 'undecided':
            undecided.append(r)
        elif r['status'] == 'unsupported':
            unsupported.append(r)
    for (r, v) in (extra_viol or []):
        hit = next((k for k in known if finding_matches(k, prop, r, v)), None)
        (known_hits.setdefault(hit['id'], []) if hit else violations).append((r, v))
    # obligations that fail by a LISTED known finding are reported under their own key and not as part of the proved set
    kf_seen, n_known_obl = set(), 0
    for hits in known_hits.values():
        for r, v in hits:
            if id(r) not in kf_seen and r.get('obligations') is not None:
                kf_seen.add(id(r)); n_known_obl += max(0, r.get('obligations', 0) - r.get('discharged', 0))
    n_obl -= n_known_obl
    os.makedirs(os.path.join(VERIF, 'evidence'), exist_ok=True)
    replay_dir = os.path.join(VERIF, 'evidence', 'replay')
    os.makedirs(replay_dir, exist_ok=True)
    code = 0
    for kid, hits in known_hits.items():
        k = next(x for x in known if x['id'] == kid)
        print('KNOWN-FINDING: property=%s %s [%d witness/config instances this run]' % (prop, k['what'], len(hits)))
    if violations:
        code = 1
        rp = os.path.join(replay_dir, '%s_%s.json' % (prop, tier))
        json.dump([{'witness': r.get('id'), 'family': r.get('family'), 'params': r.get('params'), 'config': r.get('config'), 'violation': v} for r, v in violations[:200]], open(rp, 'w'), indent=1)
        shown = 0
        seen = set()
        for r, v in violations:
            key = (r.get('family'), v.get('kind'), v.get('src') or v.get('where'))
            if key in seen:
                continue
            seen.add(key)
            if shown < 15:
                print('  violation: %s %s [%s] %s: %s' % (r.get('id'), r.get('config'), v.get('kind'), v.get('src') or v.get('where') or '', json.dumps({k: v[k] for k in v if k in ('region', 'cell', 'cells', 'how', 'got', 'expected', 'point', 'detail', 'off', 'bytes', 'align')})[:700]))
                shown += 1
        print('VIOLATION property=%s replay=%s' % (prop, rp))
    reasons = list(runner.broken)
    fl = (floors or {})
    decided = sum(1 for r in res if r['status'] in ('ok', 'violation', 'uncompilable'))
    allowed_undecided = fl.get('max_undecided', max(5, len(res) // 200))
    if unsupported:
        # a witness instance the interpreter cannot follow (a construct it does not model, its memory or time cap) is not judged; like
        # the undecided ones it is counted against the allowance, and beyond the allowance the analysis is declared broken
        us = {}
        for r in unsupported:
            for u in r.get('unsupported', []):
                us[u] = us.get(u, 0) + 1
        msg = 'unsupported constructs: ' + '; '.join('%s (%d)' % kv for kv in sorted(us.items(), key=lambda kv: -kv[1])[:8])
        print('UNSUPPORTED property=%s: %d witness instances (of %d) are outside what the interpreter models and are not judged (allowed together with the undecided ones: %d): %s' % (prop, len(unsupported), len(res), allowed_undecided, msg[:600]))
        if len(unsupported) + len(undecided) > allowed_undecided:
            reasons.append(msg)
    if undecided:
        print('UNDECIDED property=%s: %d witness instances (of %d) could neither be proved nor refuted and are not judged (allowed %d)' % (prop, len(undecided), len(res), allowed_undecided))
    if len(undecided) > allowed_undecided:
        ex = undecided[0]
        reasons.append('%d witness instances undecided (allowed %d), e.g. %s [%s]: %s' % (len(undecided), allowed_undecided, ex.get('id'), ex.get('config'), json.dumps((ex.get('undecided') or [{}])[0])[:400]))
    if decided < fl.get('decided', 1):
        reasons.append('decided witness instances %d below the floor %d' % (decided, fl.get('decided', 1)))
    if n_ok < fl.get('discharged', 1):
        reasons.append('discharged obligations %d below the floor %d' % (n_ok, fl.get('discharged', 1)))
    touched = set()
    for r in res:
        touched.update(r.get('funcs', []))
    missing = sorted(set(fl.get('funcs', [])) - touched)
    if missing:
        reasons.append('anchor function templates no longer reached by any witness: ' + ', '.join(missing[:10]))
    if reasons and code == 0:
        code = 2
    for s in reasons:
        print('ANALYSIS-BROKEN property=%s: %s' % (prop, s[:900]))
    samples = []
    for r in res:
        if r['status'] == 'ok' and r.get('sample') and len(samples) < 4:
            samples.append({'witness': r['id'], 'config': r['config'], 'params': r['params'], 'cell': r['sample'], 'obligations': r['obligations'], 'how': r.get('how')})
    if not samples:
        samples = [{'witness': r['id'], 'config': r['config'], 'status': r['status']} for r in res[:3]]
    distinct = len(set((r.get('family'), json.dumps(r.get('params'), sort_keys=True), r.get('config')) for r in res if r.get('terms', 0) > 8))
    families = {}
    for r in res:
        f = families.setdefault(r.get('family'), {'instances': 0, 'ok': 0})
        f['instances'] += 1
        f['ok'] += r['status'] == 'ok'
    x86 = set()
    for r in res:
        x86.update(r.get('x86', []))
    cov = {
        'obligations': n_obl, 'discharged': n_ok,
        'checker_cmd': 'bin/check %s --tier %s  (irflow: %s <spec.json>; witness TUs: %s)' % (prop, tier, IRFLOW, ' | '.join(sorted(runner.compile_cmds))[:1500]),
        'trusted_base': trusted,
        'evaluations': len(res), 'distinct_nontrivial': distinct,
        'rule': rule, 'samples': samples, 'exhaustive': exhaustive,
        'explanation': rule,
        'by_status': by_status, 'families': families,
        'configs': sorted(set(r.get('config') for r in res)),
        'undecided_instances': len(undecided), 'unsupported_instances': len(unsupported),
        'known_findings_hit': {k: len(v) for k, v in known_hits.items()},
        'programs_rejected_under_every_configuration': rejected_everywhere,
        'fastor_function_templates_reached': sorted(touched),
        'x86_intrinsics_interpreted': sorted(x86),
        'how_discharged': {k: sum((r.get('how') or {}).get(k, 0) for r in res) for k in ('identical_or_canonical', 'polynomial', 'case_split', 'minmax', 'refuted', 'undecided')},
        'analysis_broken_reasons': reasons,
    }
    if extra_cov:
        cov.update(extra_cov)
    cov['undecided_obligations_not_counted'] = n_und_obl
    cov['known_finding_obligations_not_counted'] = n_known_obl
    ev = {'property_id': prop, 'tier': tier, 'seed': seed, 'level': level, 'coverage': cov,
          'assumptions': assumptions or [], 'wall_s': round(time.time() - runner.t0, 2), 'violations': len(violations)}
    if not os.environ.get('VERIF_NO_EVIDENCE') and getattr(runner, 'coverage', None):
        os.makedirs(os.path.join(VERIF, 'evidence', 'coverage'), exist_ok=True)
        json.dump({f: sorted(ls) for f, ls in sorted(runner.coverage.items())}, open(os.path.join(VERIF, 'evidence', 'coverage', '%s.%s.json' % (prop, tier)), 'w'))
    if not os.environ.get('VERIF_NO_EVIDENCE'):   # dev runs against seeded changes must not overwrite the evidence of the real tree
        json.dump(ev, open(os.path.join(VERIF, 'evidence', prop + '.json'), 'w'), indent=1)
    print('%s %s: %d witness instances, %d/%d obligations discharged, status %s, %.1fs, exit %d' % (prop, tier, len(res), n_ok, n_obl, by_status, time.time() - runner.t0, code))
    return code


def load_floors(prop, tier):
    if os.environ.get('VERIF_ONLY') or os.environ.get('VERIF_ONLY_CFG'):
        return {}       # dev filter active: a partial corpus is not measured against the floors of the full one
    p = os.path.join(VERIF, 'floors.json')
    if not os.path.exists(p):
        return {}
    return json.load(open(p)).get(prop, {}).get(tier, {})
