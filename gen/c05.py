# C05 — writing through slices changes exactly the selected elements (DESIGN.md §5 C05)
from core import *
from views import *
from c04 import group_sort
import random, itertools

ALLOPS = ['=', '+=', '-=', '*=', '/=']


def scalar_assign(t, dims, idx):
    ct = CTYPE[t]
    norm = [i + n if i < 0 else i for i, n in zip(idx, dims)]
    argn = ['p%d' % k for k in range(len(dims))]
    wit = 'extern "C" void @W@(%s& a, %s s%s){ a(%s) = s; }' % (tensor_t(t, dims), ct, ''.join(', int %s' % a for a in argn), ','.join(argn))
    ref = 'extern "C" void @R@(%s* a, %s s, int q){ a[q] = s; }' % (ct, ct)
    regions = [treg('a', t, dims, 'inout'), rreg('aref', t, prod(dims), init='sym', ns='a'), rreg('s', t, 1, role='in', init='sym')]
    stages = [{'mod': 'wit', 'fn': '@W@', 'args': ['a', {'scalar': 's'}] + [{'int': i} for i in idx]}, {'mod': 'ref', 'fn': '@R@', 'args': ['aref', {'scalar': 's'}, {'int': flat(norm, dims)}]}]
    return Witness('set_%s_%s_%s' % (t, 'x'.join(map(str, dims)), '_'.join(map(str, idx))), 'write.scalar_element', {'type': t, 'dims': list(dims), 'index': list(idx), 'rank': len(dims)},
                   wit, ref, regions, stages, [{'kind': 'equal', 'a': 'a', 'b': 'aref', 'cells': prod(dims), 'mode': 'EXACT'}])


def witnesses(tier, seed):
    rng = random.Random(seed * 1013 + 5)
    quick = tier == 'quick'
    W = []
    T3 = ['f32', 'f64', 'i32']
    # scalar element assignment
    for si, dims in enumerate([[7], [3, 4], [2, 3, 4], [2, 3, 2, 3]]):
        alli = list(itertools.product(*[range(-n, n) for n in dims]))
        for idx in (alli if len(alli) <= 60 else rng.sample(alli, min(len(alli), 60 if quick else 300))):
            W.append(scalar_assign(T3[si % 3], dims, idx))
    # rank 1 dynamic destination, every operator and right-hand-side kind
    for N in ([4, 7, 8, 9] if quick else range(2, 13)):
        axes = seq_axes(N, max_step=3)
        pick = axes if len(axes) <= 40 else rng.sample(axes, min(len(axes), 40 if quick else 120))
        for k, ax in enumerate(pick):
            t = T3[(k + N) % 3]
            op = ALLOPS[k % 5]
            for rhs in ('scalar', 'tensor', 'expr'):
                W.append(mk_write(t, [N], [ax], op, rhs))
            ext, _ = selection([ax], [N])
            # slice of another tensor with any range of equal extent
            NS = N + 3
            cands = [a for a in seq_axes(NS, max_step=3) if len(a.indices(NS)) == ext[0]]
            for sax in rng.sample(cands, min(2, len(cands))):
                W.append(mk_write(t, [N], [ax], ALLOPS[(k + 1) % 5], 'slice', [sax], [NS]))
        for ax in rng.sample(axes, min(len(axes), 6)):
            for op in ALLOPS:
                W.append(mk_write('f32', [N], [ax], op, 'tensor'))
                W.append(mk_write('i32', [N], [ax], op, 'scalar'))
            W.append(mk_write('f64', [N], [ax], '+=', 'tensor', twice=True))
    for N in (16, 17, 33):
        for (f, l, s) in [(0, -1, 1), (1, -1, 1), (0, -1, 2), (1, N, 3), (0, 8, 1), (3, 11, 1), (N - 9, -1, 1)]:
            for op in ALLOPS:
                W.append(mk_write(T3[(f + l) % 3], [N], [Axis('seq', f, l, s)], op, 'tensor'))
                W.append(mk_write(T3[(f + l + 1) % 3], [N], [Axis('seq', f, l, s)], op, 'scalar'))
    # rank 2
    for si, (M, N) in enumerate([(3, 4), (4, 5), (5, 9)] if quick else [(3, 4), (4, 5), (5, 9), (2, 7), (6, 6), (4, 17), (8, 8)]):
        pairs = list(itertools.product(seq_axes(M, max_step=3), seq_axes(N, max_step=3)))
        for k, (a0, a1) in enumerate(rng.sample(pairs, min(len(pairs), 60 if quick else 250))):
            t = T3[(k + si) % 3]
            op = ALLOPS[k % 5]
            W.append(mk_write(t, [M, N], [a0, a1], op, ['scalar', 'tensor', 'expr'][k % 3]))
            if k % 4 == 0:
                W.append(mk_write('f64' if k % 8 else 'f32', [M, N], [a0, a1], ALLOPS[(k // 4) % 5], 'evalexpr'))
            if k % 3 == 0:
                ext, _ = selection([a0, a1], [M, N])
                SM, SN = M + 2, N + 1
                c0 = [a for a in seq_axes(SM, max_step=3) if len(a.indices(SM)) == ext[0]]
                c1 = [a for a in seq_axes(SN, max_step=3) if len(a.indices(SN)) == ext[1]]
                if c0 and c1:
                    W.append(mk_write(t, [M, N], [a0, a1], op, 'slice', [rng.choice(c0), rng.choice(c1)], [SM, SN]))
        # mixtures with integers and compile-time ranges
        for k in range(-1, M):
            ax = rng.choice(seq_axes(N, max_step=3))
            W.append(mk_write(T3[k % 3], [M, N], [Axis('int', k), ax], ALLOPS[k % 5], 'scalar'))
        for k in range(-1, N):
            ax = rng.choice(seq_axes(M, max_step=3))
            W.append(mk_write(T3[k % 3], [M, N], [ax, Axis('int', k)], ALLOPS[(k + 2) % 5], 'scalar'))
    # ranks 3-4 sampled
    for dims in [(3, 4, 5), (2, 3, 3, 4)] + ([] if quick else [(2, 5, 8), (4, 4, 4)]):
        per_axis = [seq_axes(n, max_step=3) for n in dims]
        for k in range(30 if quick else 150):
            axes = [rng.choice(p) for p in per_axis]
            W.append(mk_write(T3[k % 3], list(dims), axes, ALLOPS[k % 5], ['scalar', 'tensor', 'expr'][k % 3]))
    # compile-time destinations
    def fam(n, k):
        out = [Axis('all'), Axis('fseq', 0, -1, 1)]
        tr = all_triples(n, max_step=min(3, n))
        out += [Axis('fseq', *x) for x in rng.sample(tr, min(k, len(tr)))]
        out += [Axis('fix', rng.randrange(n)), Axis('fix', -1)]
        return out
    for N in ([4, 7, 9, 16, 17] if quick else [3, 4, 5, 7, 8, 9, 12, 16, 17, 33]):
        for k, ax in enumerate(fam(N, 8 if quick else 24)):
            if admissible([ax], [N]):
                for op in (ALLOPS if k % 3 == 0 else [ALLOPS[k % 5]]):
                    W.append(mk_write(T3[k % 3], [N], [ax], op, ['scalar', 'tensor', 'expr'][k % 3]))
    for (M, N) in ([(3, 4), (4, 8), (5, 9)] if quick else [(3, 4), (4, 8), (5, 9), (8, 8), (6, 17)]):
        f0, f1 = fam(M, 4), fam(N, 5)
        for k, (a0, a1) in enumerate(itertools.product(f0, f1)):
            if admissible([a0, a1], [M, N]):
                W.append(mk_write(T3[k % 3], [M, N], [a0, a1], ALLOPS[k % 5], ['scalar', 'tensor', 'expr', 'evalexpr'][k % 4] if T3[k % 3] != 'i32' or k % 4 != 3 else 'tensor'))
                if k % 5 == 0:
                    ext, _ = selection([a0, a1], [M, N])
                    if ext[0] >= 1 and ext[1] >= 1:
                        W.append(mk_write(T3[k % 3], [M, N], [a0, a1], ALLOPS[(k // 5) % 5], 'slice', [Axis('fseq', 1, 1 + ext[0], 1), Axis('fseq', 0, 2 * ext[1], 2)], [M + 2, 2 * N + 1]))
    for dims in [(3, 4, 5)] + ([] if quick else [(2, 4, 8), (2, 3, 4, 5)]):
        fams = [fam(n, 3) for n in dims]
        for k in range(24 if quick else 100):
            axes = [rng.choice(f) for f in fams]
            if admissible(axes, dims):
                W.append(mk_write(T3[k % 3], list(dims), axes, ALLOPS[k % 5], ['scalar', 'tensor', 'expr'][k % 3]))
    # right-hand sides of a DIFFERENT rank with the same number of elements (separate OTHER_DIMS != DIMS overloads of every view class;
    # coverage accounting showed them unreached): rank-2/3 views of both kinds get a rank-1 tensor / expression, rank-1 views a 1 x n one
    k = 0
    for (dims, axsets) in [([4, 6], [[Axis('seq', 0, 4, 1), Axis('seq', 1, 5, 1)], [Axis('seq', 1, 4, 2), Axis('seq', 0, 6, 2)], [Axis('fseq', 0, 4, 1), Axis('fseq', 2, 6, 1)], [Axis('fseq', 0, 4, 2), Axis('fseq', 0, 6, 3)]]),
                           ([2, 3, 8], [[Axis('seq', 0, 2, 1), Axis('seq', 1, 3, 1), Axis('seq', 0, 8, 2)], [Axis('fseq', 0, 2, 1), Axis('fseq', 0, 3, 2), Axis('fseq', 0, 8, 1)]]),
                           ([9], [[Axis('seq', 1, 9, 2)], [Axis('fseq', 0, 8, 1)]])]:
        for axes in axsets:
            for op in ALLOPS:
                for rhs in ('flat', 'flatexpr'):
                    k += 1
                    W.append(mk_write(T3[k % 3], dims, axes, op, rhs))
    # strided columns wide enough for whole SIMD chunks (the scatter/gather helpers of the vectorised view assignment step over
    # 4, 8 or 16 selected columns): 8/9/16/17 selected columns at steps 2 and 3, both view kinds, every operator
    k = 0
    for (M, N, st) in [(2, 17, 2), (3, 33, 2), (2, 25, 3), (2, 50, 3)] + ([] if quick else [(3, 16, 2), (2, 34, 2), (4, 65, 2), (2, 97, 3)]):
        for kind in ('seq', 'fseq'):
            for (r0, c0) in ((Axis(kind, 0, M, 1), Axis(kind, 0, N, st)), (Axis(kind, 1, M, 1), Axis(kind, 1, N, st))):
                for op in ALLOPS:
                    k += 1
                    if admissible([r0, c0], [M, N]):
                        w = mk_write(T3[k % 3], [M, N], [r0, c0], op, ['scalar', 'tensor', 'expr'][(k // 5) % 3])
                        w.params['wide_strided'] = True      # C06 keeps all of these in its macro-targeted sub-corpus
                        W.append(w)
    # writes through the diagonal view diag(A)
    k = 0
    for M in (1, 2, 3, 4, 5, 8, 9, 17):
        for op in ALLOPS:
            for rhs in ('scalar', 'tensor', 'expr'):
                k += 1
                W.append(mk_write(T3[k % 3], [M, M], [Axis('diag')], op, rhs))
    return group_sort(W)


def check(tier, seed):
    R = Runner('C05', tier, seed)
    try:
        W = witnesses(tier, seed)
        cfgs = [Config(isa) for isa in ALL_ISAS] + [Config(isa, macros=('FASTOR_USE_VECTORISED_EXPR_ASSIGN',)) for isa in (('sse2', 'avx2', 'avx512') if tier == 'quick' else ALL_ISAS)]
        R.run_all(W, cfgs, chunk=100)
        return finish('C05', tier, seed, R, 'proof',
                      rule='A(view) op= rhs with A inout and every cell symbolic; a reference loop applies the C++ operator on exactly the cells the selection oracle names (index list passed as constant data) to a copy of A; the WHOLE of A is then compared cell by cell (EXACT; ALGEBRAIC only for the documented reciprocal-multiply of scalar division and for the matrix-product right-hand side), which is the frame condition: every non-selected cell must still hold its initial symbol; stores outside A and loads outside the operands are footprint violations. All five operators; right-hand sides scalar, tensor, slice of another tensor, arithmetic expression, expression requiring evaluation (B %% C); two successive writes through one view object; scalar element assignment A(i,...)=x. Destinations as in C04. With and without FASTOR_USE_VECTORISED_EXPR_ASSIGN.',
                      trusted=['clang-14 front end and -O2 code generation', 'LLVM IR semantics as modelled by irflow', 'x86 lane table', 'selection oracle gen/views.py and the reference loops it emits'],
                      floors=load_floors('C05', tier), assumptions=['index parameters outside the enumerated boxes are not explored'])
    finally:
        R.cleanup()
