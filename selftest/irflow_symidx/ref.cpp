extern "C" void r0(const double* a, double* r){ double x0=a[0],x1=a[1],x2=a[2]; int m = (x1>x0)?1:0; double am = m? x1:x0; if (x2>am) m=2; r[0] = m==0?x0: m==1?x1:x2; r[1] = m==1? x0 : x1; r[2] = m==2? x0: x2; }
extern "C" void r1(const double* a, double* r){
  // explicit enumeration: column 0 argmax (first max wins), then column 1 among rows 1,2 of the ORIGINAL matrix, perm by swaps
  int p0=0,p1=1,p2=2; int m=0; if (a[3]>a[0]) m=1; if (a[6]>a[m*3]) m=2;
  p0 = m; p1 = (m==1)?0:1; p2 = (m==2)?0:2;
  int m1=1; if (a[7]>a[4]) m1=2;
  if (m1==2){ int t=p1; p1=p2; p2=t; }
  int p[3]={p0,p1,p2};
  for(int i=0;i<3;i++) for(int j=0;j<3;j++) r[i*3+j]=a[p[i]*3+j];
  r[9]=p0; r[10]=p1; r[11]=p2; }
