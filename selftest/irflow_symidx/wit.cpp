#include <cstddef>
#include <utility>
#include <algorithm>
extern "C" void w0(const double* a, double* r){ size_t m = 0; if (a[1] > a[0]) m = 1; if (a[2] > a[m]) m = 2; size_t p[3]={0,1,2}; if (m != 0) std::swap(p[0], p[m]); r[0]=a[p[0]]; r[1]=a[p[1]]; r[2]=a[p[2]]; }
extern "C" void w1(const double* a, double* r){ size_t p[3]={0,1,2}; for (size_t j=0;j<3;j++){ size_t m=j; for(size_t i=j;i<3;i++) if (a[i*3+j] > a[m*3+j]) m=i; if (j!=m) std::swap(p[j],p[m]); }
   double c[9]; for(int i=0;i<9;i++) c[i]=a[i]; for (size_t i=0;i<3;i++) if (p[i]!=i) std::copy_n(&a[p[i]*3],3,&c[i*3]); for(int i=0;i<9;i++) r[i]=c[i]; r[9]=p[0]; r[10]=p[1]; r[11]=p[2]; }
