// Positive control for the R-ALLOC rule (never part of Fastor): each construct below must be matched on every run.
#include <vector>
#include <cstdlib>
namespace Fastor { namespace verif_selftest {
inline double planted_vector_temporary(const double *p, int n) { std::vector<double> tmp(p, p + n); double s = 0; for (double v : tmp) s += v; return s; }
inline double *planted_new(int n) { return new double[n]; }
inline void *planted_malloc(int n) { return std::malloc(n); }
} }
