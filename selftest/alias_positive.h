// planted positive control for rule R-ALIAS (gen/c06.py): must be matched on every run, otherwise the rule is broken
#include <emmintrin.h>
#include <cstdint>
namespace verif_selftest {
inline int32_t alias_positive_lane(const __m128i &v, int i) { return ((const int32_t*)&v)[i]; }                       // register read through int*
inline long alias_positive_lane64(__m128i v) { return reinterpret_cast<const long*>(&v)[1]; }                          // long is not long long
inline long long alias_negative_lane(const __m128i &v) { return ((const long long*)&v)[0]; }                           // element type: allowed, must NOT match
inline unsigned char alias_negative_byte(const __m128i &v) { return ((const unsigned char*)&v)[3]; }                   // char-like: allowed, must NOT match
}
